"""Reference model written from the documentation (docs/index.md, docstrings of
VectorProtocol*): never imports vector._compute.  Generic over a numpy-like `lib`, so the same
definitions are evaluated symbolically (for the solver) and with mpmath / float64 (for replay).

Conventions: metric (-,-,-,+); rotations and boosts are active; right-handed axes.
"""
from __future__ import annotations

from symx import lanes


def decode(lib, system, coords):
    """stored coordinates -> Cartesian components [x, y, (z), (t)]"""
    az = system[0]
    if az == "xy":
        x, y = coords[0], coords[1]
        rho = None
    else:
        rho, phi = coords[0], coords[1]
        x, y = rho * lib.cos(phi), rho * lib.sin(phi)
    out = [x, y]
    if len(system) > 1:
        lo = system[1]
        if lo == "z":
            z = coords[2]
        else:
            if rho is None:
                rho = lib.sqrt(x * x + y * y)
            if lo == "theta":
                z = rho * lib.cos(coords[2]) / lib.sin(coords[2])
            else:
                z = rho * lib.sinh(coords[2])
        out.append(z)
        if len(system) > 2:
            if system[2] == "t":
                t = coords[3]
            else:
                # a negative stored tau encodes a spacelike vector: t^2 = mag^2 - tau^2 (documented convention)
                tau = coords[3]
                t = lib.sqrt(lib.copysign(tau * tau, tau) + x * x + y * y + z * z)
            out.append(t)
    return out


# Set by the driver for the symbolic run of a family that opts in: operands handed out by the run are
# decoded into abstraction symbols (linked to their defining expressions, used lazily by the prover).
ABSTRACT_RUN = None


def cart(lib, v):
    system, coords = lanes.stored(v)
    R = ABSTRACT_RUN
    if R is not None and getattr(R, "mode", "") == "sym" and system != lanes.CART[len(system) + 1]:
        cache = R.__dict__.setdefault("_cart_cache", {})
        hit = cache.get(id(v))
        if hit is not None and hit[0] is v and hit[1] == tuple(id(c) for c in coords):
            return list(hit[2])
        tracked = [i for i, (w, _) in enumerate(getattr(R, "operands", [])) if w is v]
        if tracked:
            out = _cart_abstract(R, lib, system, coords, f"_{tracked[0]}")
            cache[id(v)] = (v, tuple(id(c) for c in coords), out)
            return list(out)
    return decode(lib, system, coords)


def _cart_abstract(R, lib, system, coords, tag):
    spatial = decode(lib, system[:2] if len(system) > 2 else system, coords[:3] if len(system) > 2 else coords)
    out = []
    for i, e in enumerate(spatial):
        if (i < 2 and system[0] == "xy") or (i == 2 and system[1] == "z"):
            out.append(coords[i])
        else:
            out.append(R.abstract(f"c{'xyz'[i]}{tag}", e))
    if len(system) == 3:
        if system[2] == "t":
            out.append(coords[3])
        else:
            tau = coords[3]
            t2 = lib.copysign(tau * tau, tau) + out[0] * out[0] + out[1] * out[1] + out[2] * out[2]
            out.append(R.abstract(f"ct{tag}", t2, nonneg_root=True))
    return out


# ---- scalars of one vector ------------------------------------------------------------------


def rho2(lib, c):
    return c[0] * c[0] + c[1] * c[1]


def rho(lib, c):
    return lib.sqrt(rho2(lib, c))


def phi(lib, c):
    return lib.arctan2(c[1], c[0])


def mag2(lib, c):
    return c[0] * c[0] + c[1] * c[1] + c[2] * c[2]


def mag(lib, c):
    return lib.sqrt(mag2(lib, c))


def costheta(lib, c):
    return c[2] / mag(lib, c)


def cottheta(lib, c):
    return c[2] / rho(lib, c)


def theta(lib, c):
    return lib.arccos(costheta(lib, c))


def eta(lib, c):
    return lib.arcsinh(c[2] / rho(lib, c))


def tau2(lib, c):
    return c[3] * c[3] - mag2(lib, c)


def tau(lib, c):
    """sign(tau2) * sqrt(|tau2|)"""
    t2 = tau2(lib, c)
    return lib.copysign(lib.sqrt(lib.absolute(t2)), t2)


def t2(lib, c):
    return c[3] * c[3]


def beta(lib, c):
    return mag(lib, c) / c[3]


def gamma(lib, c):
    return c[3] / tau(lib, c)


def rapidity(lib, c):
    return 0.5 * lib.log((c[3] + c[2]) / (c[3] - c[2]))


def Et2(lib, c):
    return c[3] * c[3] * rho2(lib, c) / mag2(lib, c)


def Et(lib, c):
    return c[3] * rho(lib, c) / mag(lib, c)


def Mt2(lib, c):
    return c[3] * c[3] - c[2] * c[2]


def Mt(lib, c):
    m2 = Mt2(lib, c)
    return lib.copysign(lib.sqrt(lib.absolute(m2)), m2)


# ---- two vectors ---------------------------------------------------------------------------


def dot(lib, a, b):
    n = len(a)
    if n == 4:
        return a[3] * b[3] - a[0] * b[0] - a[1] * b[1] - a[2] * b[2]
    s = a[0] * b[0] + a[1] * b[1]
    if n == 3:
        s = s + a[2] * b[2]
    return s


def add(lib, a, b):
    return [x + y for x, y in zip(a, b)]


def subtract(lib, a, b):
    return [x - y for x, y in zip(a, b)]


def scale(lib, k, a):
    return [k * x for x in a]


def cross(lib, a, b):
    return [a[1] * b[2] - a[2] * b[1], a[2] * b[0] - a[0] * b[2], a[0] * b[1] - a[1] * b[0]]


def deltaphi(lib, a, b):
    """representative of phi_a - phi_b in [-pi, pi)"""
    d = phi(lib, a) - phi(lib, b)
    return (d + lib.pi) % (2 * lib.pi) - lib.pi


def deltaeta(lib, a, b):
    return eta(lib, a) - eta(lib, b)


def deltaR2(lib, a, b):
    return deltaphi(lib, a, b) ** 2 + deltaeta(lib, a, b) ** 2


def deltaR(lib, a, b):
    return lib.sqrt(deltaR2(lib, a, b))


def cosangle(lib, a, b):
    return dot(lib, a[:3], b[:3]) / (mag(lib, a) * mag(lib, b)) if len(a) >= 3 else dot(lib, a[:2], b[:2]) / (rho(lib, a) * rho(lib, b))


def deltaangle(lib, a, b):
    return lib.arccos(cosangle(lib, a, b))


def deltaRapidityPhi2(lib, a, b):
    return (rapidity(lib, a) - rapidity(lib, b)) ** 2 + deltaphi(lib, a, b) ** 2


def deltaRapidityPhi(lib, a, b):
    return lib.sqrt(deltaRapidityPhi2(lib, a, b))


def unit(lib, a):
    n = len(a)
    if n == 2:
        k = rho(lib, a)
    elif n == 3:
        k = mag(lib, a)
    else:
        k = lib.sqrt(lib.absolute(tau2(lib, a)))  # "normalized to unit length": tau2 becomes +1 or -1
    return [x / k for x in a]


# ---- rotations (active, right-handed) ---------------------------------------------------------


def rotZ(lib, ang, a):
    c, s = lib.cos(ang), lib.sin(ang)
    return [c * a[0] - s * a[1], s * a[0] + c * a[1]] + list(a[2:])


def rotX(lib, ang, a):
    c, s = lib.cos(ang), lib.sin(ang)
    return [a[0], c * a[1] - s * a[2], s * a[1] + c * a[2]] + list(a[3:])


def rotY(lib, ang, a):
    c, s = lib.cos(ang), lib.sin(ang)
    return [c * a[0] + s * a[2], a[1], -s * a[0] + c * a[2]] + list(a[3:])


ROT = {"x": rotX, "y": rotY, "z": rotZ}


def rotate_axis(lib, axis, ang, a):
    """Rodrigues: v cos + (n x v) sin + n (n.v)(1 - cos), n = axis/|axis|"""
    n = mag(lib, axis)
    u = [axis[0] / n, axis[1] / n, axis[2] / n]
    c, s = lib.cos(ang), lib.sin(ang)
    v = a[:3]
    uxv = cross(lib, u, v)
    ud = dot(lib, u, v)
    return [v[i] * c + uxv[i] * s + u[i] * ud * (1 - c) for i in range(3)] + list(a[3:])


def rotate_quaternion(lib, u, i, j, k, a):
    """rotation by the unit quaternion q = u + i*I + j*J + k*K (ROOT convention): v' = q v q^-1"""
    x, y, z = a[:3]
    xp = (u * u + i * i - j * j - k * k) * x + 2 * (i * j - u * k) * y + 2 * (i * k + u * j) * z
    yp = 2 * (i * j + u * k) * x + (u * u - i * i + j * j - k * k) * y + 2 * (j * k - u * i) * z
    zp = 2 * (i * k - u * j) * x + 2 * (j * k + u * i) * y + (u * u - i * i - j * j + k * k) * z
    return [xp, yp, zp] + list(a[3:])


def rotate_euler(lib, phi_, theta_, psi_, order, a):
    """rotate_euler(phi, theta, psi, 'abc') = R_a(-psi) . R_b(-theta) . R_c(-phi): the Wikipedia matrix
    A1 B2 C3 with the angle substitution documented in spatial/rotate_euler.py"""
    o = order.lower()
    v = ROT[o[2]](lib, -phi_, a)
    v = ROT[o[1]](lib, -theta_, v)
    v = ROT[o[0]](lib, -psi_, v)
    return v


# ---- boosts (active) -----------------------------------------------------------------------


def boost_beta3(lib, b, a):
    """x' = x + b (g^2/(1+g) b.x + g t), t' = g (t + b.x)"""
    b2 = b[0] * b[0] + b[1] * b[1] + b[2] * b[2]
    g = 1 / lib.sqrt(1 - b2)
    bx = b[0] * a[0] + b[1] * a[1] + b[2] * a[2]
    k = g * g / (1 + g) * bx + g * a[3]
    return [a[0] + b[0] * k, a[1] + b[1] * k, a[2] + b[2] * k, g * (a[3] + bx)]


def boost_p4(lib, p, a):
    b = [p[0] / p[3], p[1] / p[3], p[2] / p[3]]
    return boost_beta3(lib, b, a)


def boost_axis_beta(lib, axis, b, a):
    g = 1 / lib.sqrt(1 - b * b)
    i = "xyz".index(axis)
    out = list(a)
    out[i] = g * (a[i] + b * a[3])
    out[3] = g * (a[3] + b * a[i])
    return out


def boost_axis_gamma(lib, axis, g, a):
    """|gamma| >= 1, sign of gamma gives the direction"""
    ag = lib.absolute(g)
    bg = lib.copysign(lib.sqrt(g * g - 1), g)  # beta*gamma, signed
    i = "xyz".index(axis)
    out = list(a)
    out[i] = ag * a[i] + bg * a[3]
    out[3] = ag * a[3] + bg * a[i]
    return out


def to_beta3(lib, a):
    return [a[0] / a[3], a[1] / a[3], a[2] / a[3]]


def transform(lib, m, a, n):
    names = "xyzt"[:n]
    return [sum((m[names[r] + names[c]] * a[c] for c in range(1, n)), m[names[r] + names[0]] * a[0]) for r in range(n)] + list(a[n:])
