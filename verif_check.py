"""CLI of the verification machinery: ./check <PID> [--tier quick|thorough] ..."""
from __future__ import annotations

import argparse
import fnmatch
import hashlib
import importlib
import json
import os
import re
import sys
import time

HERE = os.path.dirname(os.path.abspath(__file__))
sys.path.insert(0, HERE)

EXIT_OK, EXIT_VIOLATION, EXIT_INCONCLUSIVE, EXIT_HARNESS = 0, 1, 2, 3


def load_json(path, default):
    try:
        with open(path) as f:
            return json.load(f)
    except FileNotFoundError:
        return default


def sanitize(key):
    return re.sub(r"[^A-Za-z0-9_.+-]", "_", key)[:150]


def repo_hashes(functions):
    """sha256 of the source files the encoded functions live in, read now"""
    import vector

    root = os.path.dirname(vector.__file__)
    files = set()
    for f in functions:
        m = re.match(r"vector\.([A-Za-z0-9_.]+)", f)
        if not m:
            continue
        parts = m.group(1).split(".")
        for n in range(len(parts), 0, -1):
            p = os.path.join(root, *parts[:n]) + ".py"
            if os.path.exists(p):
                files.add(p)
                break
    out = {}
    for p in sorted(files):
        with open(p, "rb") as fh:
            out[os.path.relpath(p, root)] = hashlib.sha256(fh.read()).hexdigest()[:16]
    return out


def replay(pid, path):
    from symx import driver

    rec = load_json(path, None)
    if rec is None:
        print(f"HARNESS-ERROR: cannot read {path}")
        return EXIT_HARNESS
    mod = importlib.import_module(f"props.{pid.lower()}")
    fams = {f.key: f for f in mod.families("thorough")}
    fam = fams.get(rec["family"])
    if fam is None:
        print(f"HARNESS-ERROR: family {rec['family']} not found")
        return EXIT_HARNESS
    import fractions

    assignment = {k: fractions.Fraction(v) for k, v in rec["assignment"].items()}
    bad = False
    primary = getattr(fam, "replay_mode", "mp")  # families about IEEE rounding replay on the float64 backend
    for mode in ("mp", "f64"):
        res, R = driver.concrete_eval(fam.fn, assignment, mode)
        print(f"[{mode}]", json.dumps({k: (v if isinstance(v, str) else [v[0], str(v[1])[:120]]) for k, v in res.items()}, indent=1))
        if "__raised__" in res:
            bad = bad or mode == primary
        elif "__skip__" not in res:
            g = rec.get("goal")
            if g in res and not res[g][0] and mode == primary:
                bad = True
            if g not in res and mode == primary and any(not v[0] for v in res.values()):
                bad = True
    if bad:
        print(f"VIOLATION property={pid} replay={path}")
        return EXIT_VIOLATION
    print("replay: the recorded input no longer violates the property")
    return EXIT_OK


def main(argv=None):
    ap = argparse.ArgumentParser()
    ap.add_argument("pid")
    ap.add_argument("--tier", default=os.environ.get("VERIF_TIER", "quick"))
    ap.add_argument("--only", default=None, help="substring / glob filter on family keys")
    ap.add_argument("--procs", type=int, default=int(os.environ.get("VERIF_PROCS", "0")) or None)
    ap.add_argument("--replay", default=None)
    ap.add_argument("--timeout-ms", type=int, default=None)
    ap.add_argument("--hard-s", type=int, default=None)
    ap.add_argument("--dump", default=None, help="write per-family results to this JSON-lines file")
    ap.add_argument("--list", action="store_true")
    ap.add_argument("--no-evidence", action="store_true")
    ap.add_argument("--verbose", "-v", action="store_true")
    args = ap.parse_args(argv)
    pid = args.pid.upper()
    tier = "thorough" if args.tier == "thorough" else "quick"
    seed = int(os.environ.get("VERIF_SEED", "0") or 0)
    if args.replay:
        return replay(pid, args.replay)

    t0 = time.time()
    from symx import driver

    mod = importlib.import_module(f"props.{pid.lower()}")
    bounds = load_json(os.path.join(HERE, "bounds.json"), {})
    pb = bounds.get(pid, {}) if not os.environ.get("VERIF_IGNORE_BOUNDS") else {k: v for k, v in bounds.get(pid, {}).items() if k == "outside_claim" and False}
    if os.environ.get("VERIF_IGNORE_BOUNDS"):
        pb = {"outside_claim": {k: v for k, v in bounds.get(pid, {}).get("outside_claim", {}).items() if "*" in k}}
    outside = pb.get("outside_claim", {})
    slow = pb.get("slow", {})
    known = [k for k in load_json(os.path.join(HERE, "known_findings.json"), {"findings": []}).get("findings", []) if k.get("property") == pid and k.get("status", "known") == "known"]

    fams_all = mod.families(tier)
    keys = [f.key for f in fams_all]
    if len(set(keys)) != len(keys):
        dup = [k for k in keys if keys.count(k) > 1][:3]
        print(f"HARNESS-ERROR: duplicate family keys {dup}")
        return EXIT_HARNESS
    skipped_outside, skipped_slow, fams = [], [], []
    for f in fams_all:
        if args.only and not (args.only in f.key or fnmatch.fnmatch(f.key, args.only)):
            continue
        if any(fnmatch.fnmatch(f.key, pat) for pat in outside):
            skipped_outside.append(f.key)
            if not any("*" in pat and fnmatch.fnmatch(f.key, pat) for pat in outside):
                # outside the claim (undecided on the pinned tree): still executed in the thorough tier as a
                # bug hunt - a reproducing counterexample is reported, an undecided verdict is not an error
                f.hunt = True
                fams.append(f)
            continue
        if tier == "quick" and (f.tier == "thorough" or any(fnmatch.fnmatch(f.key, pat) for pat in slow)):
            skipped_slow.append(f.key)
            # decided only in the thorough tier; the quick tier still gives it the replay lane (bug hunt, not counted)
            f.hunt = True
            fams.append(f)
            continue
        fams.append(f)
    if os.environ.get("VERIF_ONLY_SLOW"):
        # maintenance runs (tools/bounds_from_log.py): only the families the quick tier does not decide
        fams = [f for f in fams if not getattr(f, "hunt", False) and (f.tier == "thorough" or any(fnmatch.fnmatch(f.key, pat) for pat in slow))]
    if args.list:
        for f in fams:
            print(f.key)
        print(len(fams), "families;", len(skipped_outside), "outside claim;", len(skipped_slow), "thorough only")
        return 0
    if not fams:
        print("HARNESS-ERROR: no obligations selected")
        return EXIT_HARNESS
    # order: deterministic shuffle by seed so that long families spread over workers
    import random

    rnd = random.Random(seed)
    order = list(range(len(fams)))
    rnd.shuffle(order)
    fams = [fams[i] for i in order]

    opts = {
        "timeout_ms": args.timeout_ms or (10000 if tier == "quick" else 30000),
        "small_ms": 1500,
        "hard_s": 240 if tier == "quick" else 450,
        "seed": seed,
        "n_candidates": 16 if tier == "quick" else 40,
    }
    opts.update(getattr(mod, "OPTS", {}).get(tier, {}))
    opts["outside_goals"] = pb.get("outside_goals", {})
    opts["hunt_outside_goals"] = tier == "thorough"
    opts["hunt_replay_only"] = tier == "quick"  # quick tier: outside-claim families get the replay lane only
    if args.hard_s:
        opts["hard_s"] = args.hard_s
    if args.timeout_ms:
        opts["timeout_ms"] = args.timeout_ms
    done = [0]
    dumpf = open(args.dump, "w") if args.dump else None

    def progress(r):
        done[0] += 1
        if dumpf:
            dumpf.write(json.dumps({k: r.get(k) for k in ("key", "status", "wall_s", "reason", "goals", "stats", "violation")}, default=str) + "\n")
            dumpf.flush()
        if args.verbose or r["status"] not in ("proved",):
            print(f"  [{done[0]}/{len(fams)}] {r['status']:12s} {r['key']}  {r.get('wall_s', 0)}s  {r.get('reason', '')}", flush=True)

    results = driver.run_all(fams, opts, procs=args.procs, progress=progress)
    # an undecided obligation gets one more attempt with four times the solver budget (timeouts depend on
    # machine load; a verdict never does)
    retry = [i for i, r in enumerate(results) if r["status"] == "inconclusive" and not getattr(next(f for f in fams if f.key == r["key"]), "hunt", False)]
    if retry and not args.dump and not os.environ.get("VERIF_NO_RETRY"):
        by_key = {f.key: f for f in fams}
        opts2 = dict(opts)
        opts2["timeout_ms"] = opts["timeout_ms"] * 4
        opts2["hard_s"] = int(opts["hard_s"] * 1.5)
        again = driver.run_all([by_key[results[i]["key"]] for i in retry], opts2, procs=args.procs, progress=progress)
        redo = {r["key"]: r for r in again}
        for i in retry:
            r2 = redo.get(results[i]["key"])
            if r2 is not None:
                r2["retried"] = True
                results[i] = r2
    results.sort(key=lambda r: r["key"])

    # ---- verdicts -----------------------------------------------------------------------
    violations, known_hits, inconclusive, errors = [], [], [], []
    hunted = {f.key for f in fams if getattr(f, "hunt", False)}
    hunted_undecided = []
    if hunted:
        results_claim = [r for r in results if r["key"] not in hunted]
    else:
        results_claim = results
    os.makedirs(os.path.join(HERE, "replay", pid), exist_ok=True)
    for r in results:
        if r["status"] == "violation":
            v = r["violation"]
            hit = None
            for k in known:
                if fnmatch.fnmatch(r["key"], k.get("family", "*")) and fnmatch.fnmatch(v.get("goal", ""), k.get("goal", "*")):
                    hit = k
                    break
            if hit:
                known_hits.append((hit, r))
            else:
                path = os.path.join(HERE, "replay", pid, sanitize(r["key"]) + ".json")
                rec = dict(v)
                rec.update({"property": pid, "functions": r.get("functions"), "how_to_replay": f"./check {pid} --replay {path}"})
                with open(path, "w") as fh:
                    json.dump(rec, fh, indent=1)
                violations.append((r, path))
        elif r["status"] == "inconclusive":
            if r["key"] in hunted:
                hunted_undecided.append(r)
            else:
                inconclusive.append(r)
        elif r["status"] != "proved":
            errors.append(r)

    obligations = sum(len(r.get("goals", [])) for r in results_claim)
    discharged = sum(1 for r in results_claim for g in r.get("goals", []) if g.get("verdict") in ("unsat", "concrete-true"))
    obligations -= sum(1 for r in results_claim for g in r.get("goals", []) if g.get("verdict") == "outside-claim")
    solver_goals = sum(1 for r in results_claim for g in r.get("goals", []) if g.get("verdict") in ("unsat", "sat", "unknown"))
    queries = sum(r.get("stats", {}).get("queries", 0) for r in results)
    solver_s = sum(r.get("stats", {}).get("solver_s", 0.0) for r in results)
    by_kind = {}
    for r in results:
        for k, (n, s) in r.get("stats", {}).get("by_kind", {}).items():
            e = by_kind.setdefault(k, [0, 0.0])
            e[0] += n
            e[1] = round(e[1] + s, 3)
    functions = sorted({f for r in results for f in r.get("functions", [])})
    wall = time.time() - t0

    for hit, r in known_hits[:0]:
        pass
    printed = set()
    for hit, r in known_hits:
        if hit.get("id") in printed:
            continue
        printed.add(hit.get("id"))
        n = sum(1 for h, _ in known_hits if h is hit)
        print(f"KNOWN-FINDING: property={pid} {hit.get('what', '')} [{n} obligations match, e.g. {r['key']}]")
    for r, path in violations:
        v = r["violation"]
        print(f"VIOLATION property={pid} replay={path}")
        print(f"  family={r['key']} goal={v.get('goal')} inputs={v.get('assignment')} detail={v.get('detail')}")
    for r in inconclusive[:20]:
        print(f"INCONCLUSIVE property={pid} family={r['key']} {r.get('reason', '')}")
    for r in errors[:20]:
        print(f"HARNESS-ERROR property={pid} family={r['key']} {r.get('reason', '')}")
        if args.verbose and r.get("trace"):
            print(r["trace"])

    if not args.no_evidence:
        samples = []
        for r in results[:: max(1, len(results) // 8)][:8]:
            if r.get("sample"):
                samples.append({"family": r["key"], "inputs": r.get("inputs"), "goal": r["sample"]["goal"], "verdict": r["sample"]["verdict"], "goals": [g["label"] for g in r.get("goals", [])][:12]})
        ev = {
            "property_id": pid,
            "tier": tier,
            "seed": seed,
            "level": "other",
            "coverage": {
                "explanation": getattr(mod, "EXPLANATION", "bounded SMT checking of symbolically executed code"),
                "obligations": obligations,
                "discharged": discharged,
                "solver_decided_goals": solver_goals,
                "families": len(results_claim),
                "families_proved": sum(1 for r in results_claim if r["status"] == "proved"),
                "outside_claim_hunted": len(hunted),
                "outside_claim_hunted_undecided": len(hunted_undecided),
                "families_inconclusive": len(inconclusive),
                "families_error": len(errors),
                "evaluations": len(results_claim),
                "distinct_nontrivial": sum(1 for r in results_claim if r["status"] == "proved" and len(r.get("goals", [])) > 0 and r.get("inputs")),
                "solver_decided_families": sum(1 for r in results_claim if any(g.get("verdict") in ("unsat", "sat", "unknown") for g in r.get("goals", []))),
                "rule": "one family = one symbolic execution of the real code for one coordinate-system signature / call shape (family keys are unique); non-trivial = the family executed the real code on at least one symbolic input and all its goals were discharged; solver_decided_families counts those with at least one goal decided by an SMT query (the others are decided by object identity on the single symbolic path)",
                "checker_cmd": f"./check {pid} --tier {tier}",
                "trusted_base": getattr(mod, "TRUSTED", ["z3 5.1.0 (QF_NRA, nlsat)", "axiom schemas of symx/core.py for sqrt/sin/cos/atan2/acos/atan/exp/log/mod", "reference model spec/model.py", "Sym fraction arithmetic"]),
                "samples": samples,
                "functions_encoded": functions,
                "n_functions_encoded": len(functions),
                "source_hashes": repo_hashes(functions),
                "solver": {"queries": queries, "solver_s": round(solver_s, 2), "by_kind": by_kind, "z3": __import__("z3").get_version_string()},
                "bounds": getattr(mod, "BOUNDS", {}),
                "outside_claim": sorted(skipped_outside)[:200],
                "outside_goals": {k: v for k, v in list(pb.get("outside_goals", {}).items())[:100]},
                "n_outside_goals": sum(len(v) for v in pb.get("outside_goals", {}).values()),
                "outside_claim_reasons": outside,
                "thorough_only": len(skipped_slow),
                "vacuity_twins_sat": sum(1 for r in results if r.get("vacuity_twin") == "sat"),
                "known_findings_matched": [h.get("id") for h, _ in known_hits],
                "exhaustive": False,
            },
            "assumptions": getattr(mod, "ASSUMPTIONS", ["exact real arithmetic (float rounding outside the claim)", "operands in the representable domain stated per family"]),
            "wall_s": round(wall, 2),
            "violations": len(violations),
        }
        os.makedirs(os.path.join(HERE, "evidence"), exist_ok=True)
        with open(os.path.join(HERE, "evidence", f"{pid}.json"), "w") as fh:
            json.dump(ev, fh, indent=1, default=str)

    print(
        f"{pid} {tier}: families={len(results)} proved={sum(1 for r in results if r['status'] == 'proved')} "
        f"violations={len(violations)} known={len(known_hits)} inconclusive={len(inconclusive)} errors={len(errors)} "
        f"goals={obligations} discharged={discharged} queries={queries} solver_s={solver_s:.1f} wall_s={wall:.1f}"
    )
    if violations:
        return EXIT_VIOLATION
    if errors:
        return EXIT_HARNESS
    if inconclusive:
        return EXIT_INCONCLUSIVE
    return EXIT_OK


if __name__ == "__main__":
    sys.exit(main())
