"""C05 — result backend, flavor, dimension and coordinate system follow the stated rules
(object backend, object x object pairings; NumPy pairings are exercised by the C03 lane)."""
from __future__ import annotations

import itertools

import numpy

from symx import lanes
from symx import run as G
from symx.driver import Family
from spec import model as spec

from vector._methods import Momentum, Vector

from . import common

PID = "C05"
EXPLANATION = (
    "symbolic execution of the real code over the finite lattice: every public method is called at every point (coordinate-system signature of "
    "its operands x generic/momentum flavor of each operand x dimension pairing x operand order) with z3-term operands on one path (a branch on a "
    "symbolic value aborts the run), so the observed result class, flavor, dimension and stored coordinate classes hold for every operand value at "
    "that point; they are compared with the documented rules; every dispatch_map is compared with the full Cartesian product of coordinate systems; "
    "operator == method is decided by object identity of the result terms or by z3 (QF_NRA)"
)
BOUNDS = {"backends": "object x object only in this check (NumPy pairings: C03 lane; Awkward: not reachable)", "value-independence": "guaranteed by single-path symbolic execution (SymbolicBranch otherwise)"}


def _dim(v):
    return len(lanes.stored(v)[0]) + 1


def _is_mom(v):
    return isinstance(v, Momentum)


UNARY_VEC = {
    # name: (min dim, result dim rule, call)
    "unit": (2, "same", lambda v, R: v.unit()),
    "scale": (2, "same", lambda v, R: v.scale(R.real("k", "nonneg"))),
    "rotateZ": (2, "same", lambda v, R: v.rotateZ(R.real("a", "angle"))),
    "neg": (2, "same", lambda v, R: -v if not (len(lanes.stored(v)[0]) == 3 and lanes.stored(v)[0][2] == "tau") else v.scale(1)),
    "transform2D": (2, "same", lambda v, R: v.transform2D(common.matrix(R, 2))),
    "scale2D": (2, "same", lambda v, R: v.scale2D(R.real("k", "nonneg"))),
    "rotateX": (3, "same", lambda v, R: v.rotateX(R.real("a", "angle"))),
    "rotateY": (3, "same", lambda v, R: v.rotateY(R.real("a", "angle"))),
    "rotate_euler": (3, "same", lambda v, R: v.rotate_euler(R.real("a", "angle"), R.real("b", "angle"), R.real("c", "angle"))),
    "rotate_nautical": (3, "same", lambda v, R: v.rotate_nautical(R.real("a", "angle"), R.real("b", "angle"), R.real("c", "angle"))),
    "rotate_quaternion": (3, "same", lambda v, R: v.rotate_quaternion(R.real("u"), R.real("i"), R.real("j"), R.real("k2"))),
    "transform3D": (3, "same", lambda v, R: v.transform3D(common.matrix(R, 3))),
    "scale3D": (3, "same", lambda v, R: v.scale3D(R.real("k", "nonneg"))),
    "boostX": (4, "same", lambda v, R: v.boostX(beta=R.real("b", "beta"))),
    "boostY": (4, "same", lambda v, R: v.boostY(gamma=R.real("g", "gamma"))),
    "boostZ": (4, "same", lambda v, R: v.boostZ(beta=R.real("b", "beta"))),
    "transform4D": (4, "same", lambda v, R: v.transform4D(common.matrix(R, 4))),
    "scale4D": (4, "same", lambda v, R: v.scale4D(R.real("k", "nonneg"))),
    "to_beta3": (4, 3, lambda v, R: v.to_beta3()),
    "to_Vector2D": (2, 2, lambda v, R: v.to_Vector2D()),
    "to_Vector3D": (2, 3, lambda v, R: v.to_Vector3D()),
    "to_Vector4D": (2, 4, lambda v, R: v.to_Vector4D()),
    "to_xy": (2, 2, lambda v, R: v.to_xy()),
    "to_rhophieta": (2, 3, lambda v, R: v.to_rhophieta()),
    "to_xyzt": (2, 4, lambda v, R: v.to_xyzt()),
}


def f_unary_lattice(name, d):
    dmin, rule, call = UNARY_VEC[name]

    def fn(R):
        bad = []
        n = 0
        for s in lanes.ALL_SYS[d]:
            systems_seen = set()
            for mom in (False, True):
                v = R.vec(s, f"{lanes.sysname(s)}{int(mom)}", momentum=mom, offaxis=True)
                n += 1
                try:
                    r = call(v, R)
                except Exception as e:
                    bad.append(f"{s}/{mom}: raised {type(e).__name__}: {str(e)[:60]}")
                    continue
                if not isinstance(r, Vector):
                    bad.append(f"{s}/{mom}: result is {type(r).__name__}")
                    continue
                want = d if rule == "same" else rule
                if _dim(r) != want:
                    bad.append(f"{s}/{mom}: dimension {_dim(r)} != {want}")
                if _is_mom(r) != mom:
                    bad.append(f"{s}/{mom}: flavor {type(r).__name__}")
                if type(r).__module__ != type(v).__module__:
                    bad.append(f"{s}/{mom}: backend {type(r).__module__}")
                systems_seen.add(lanes.stored(r)[0])
            if len(systems_seen) > 1:
                bad.append(f"{s}: result coordinate system depends on flavor: {systems_seen}")
        return [(f"lattice-{n}-points", G.true(not bad, "; ".join(bad[:6])))] + [(f"mismatch:{b[:80]}", G.true(False, b)) for b in bad[:10]]

    return fn


BINARY = {
    # name: (dims of self, allowed other dims fn, result kind, counted-for-flavor second operand, call)
    "add": ("same", "vector", True, lambda a, b, R: a.add(b)),
    "subtract": ("same", "vector", True, lambda a, b, R: a.subtract(b)),
    "dot": ("same", "scalar", True, lambda a, b, R: a.dot(b)),
    "equal": ("same", "scalar", True, lambda a, b, R: a.equal(b)),
    "not_equal": ("same", "scalar", True, lambda a, b, R: a.not_equal(b)),
    "isclose": ("same", "scalar", True, lambda a, b, R: a.isclose(b)),
    "is_parallel": ("same", "scalar", True, lambda a, b, R: a.is_parallel(b)),
    "is_antiparallel": ("same", "scalar", True, lambda a, b, R: a.is_antiparallel(b)),
    "is_perpendicular": ("same", "scalar", True, lambda a, b, R: a.is_perpendicular(b)),
    "cross": ("3only", "vector3", True, lambda a, b, R: a.cross(b)),
    "deltaphi": ("any", "scalar", True, lambda a, b, R: a.deltaphi(b)),
    "rotate_axis": ("axis3", "vector", False, lambda a, b, R: a.rotate_axis(b, R.real("ang", "angle"))),
    "boost_p4": ("p4", "vector", True, lambda a, b, R: a.boost_p4(b)),
    "boost_beta3": ("b3", "vector", True, lambda a, b, R: a.boost_beta3(b)),
    "boost": ("b34", "vector", True, lambda a, b, R: a.boost(b)),
    "boostCM_of": ("b34", "vector", True, lambda a, b, R: a.boostCM_of(b)),
}


def _allowed(rule, d1, d2):
    return {
        "same": d1 == d2,
        "3only": d1 == 3 and d2 == 3,
        "any": True,
        "axis3": d1 >= 3 and d2 == 3,
        "p4": d1 == 4 and d2 == 4,
        "b3": d1 == 4 and d2 == 3,
        "b34": d1 == 4 and d2 in (3, 4),
    }[rule]


def f_binary_lattice(name, d1, d2):
    rule, kind, counted, call = BINARY[name]

    def fn(R):
        bad = []
        n = 0
        ok_dims = _allowed(rule, d1, d2)
        sys1 = lanes.ALL_SYS[d1]
        sys2 = lanes.ALL_SYS[d2]
        if not ok_dims:
            sys1, sys2 = sys1[:2], sys2[:2]
        for s1 in sys1:
            for s2 in sys2:
                seen = set()
                for m1, m2 in itertools.product((False, True), repeat=2):
                    if not ok_dims and (m1 or m2):
                        continue
                    a = R.vec(s1, f"a{lanes.sysname(s1)}{int(m1)}", momentum=m1, offaxis=True)
                    b = R.vec(s2, f"b{lanes.sysname(s2)}{int(m2)}", momentum=m2, offaxis=True)
                    n += 1
                    try:
                        r = call(a, b, R)
                        raised = None
                    except TypeError as e:
                        raised = "TypeError"
                    except Exception as e:
                        raised = f"{type(e).__name__}: {str(e)[:50]}"
                    tag = f"{lanes.sysname(s1)}|{lanes.sysname(s2)}/{int(m1)}{int(m2)}"
                    if not ok_dims:
                        if raised is not None and raised.startswith("AttributeError") and not hasattr(type(a), name):
                            continue  # the method does not exist for this dimension: rejected
                        if raised != "TypeError":
                            bad.append(f"{tag}: dimensions {d1},{d2} must raise TypeError, got {raised}")
                        continue
                    if raised:
                        bad.append(f"{tag}: raised {raised}")
                        continue
                    if kind.startswith("vector"):
                        if not isinstance(r, Vector):
                            bad.append(f"{tag}: result {type(r).__name__}")
                            continue
                        want = 3 if kind == "vector3" else d1
                        if _dim(r) != want:
                            bad.append(f"{tag}: dimension {_dim(r)} != {want}")
                        wantm = (m1 or m2) if counted else m1
                        if _is_mom(r) != wantm:
                            bad.append(f"{tag}: flavor {type(r).__name__} (momentum expected: {wantm})")
                        seen.add(lanes.stored(r)[0])
                    else:
                        if isinstance(r, Vector):
                            bad.append(f"{tag}: scalar expected, got vector")
                if len(seen) > 1:
                    bad.append(f"{lanes.sysname(s1)}|{lanes.sysname(s2)}: result system depends on flavor {seen}")
        return [(f"lattice-{n}-points", G.true(not bad, "; ".join(bad[:6])))] + [(f"mismatch:{b[:90]}", G.true(False, b)) for b in bad[:10]]

    return fn


def f_like_fixes(name, d1, d2):
    rule, kind, counted, call = BINARY[name]

    def fn(R):
        a = R.vec(lanes.ALL_SYS[d1][1], "a", offaxis=True)
        b = R.vec(lanes.ALL_SYS[d2][-1], "b", momentum=True, offaxis=True)
        goals = []
        for label, thunk in (("a.like(b)", lambda: call(a.like(b), b, R)), ("b.like(a)", lambda: call(a, b.like(a), R))):
            try:
                thunk()
                ok = True
            except Exception as e:
                ok = False
            goals.append((f"{name}:{label}-works", G.true(ok)))
        return goals

    return fn


def f_dispatch_maps():
    """every dispatch_map holds exactly the full Cartesian product of coordinate systems (no holes)"""

    def fn(R):
        bad = []
        total = 0
        for pkg, name, module in common.compute_modules():
            params = common.dispatch_params(module)
            nvec = sum(1 for p in params if p in common.VEC_PARAMS)
            d = common.PKG_DIM[pkg]
            dims = [d] * nvec
            if (pkg, name) in (("lorentz", "boost_beta3"),):
                dims = [4, 3]
            if (pkg, name) == ("spatial", "rotate_axis"):
                dims = [3, 3]
            expected = set()
            for combo in itertools.product(*[lanes.ALL_SYS[x] for x in dims]):
                key = tuple(common.NAME2CLS[c] for s in combo for c in s)
                if name == "rotate_euler":
                    for o in ["xzx", "xyx", "yxy", "yzy", "zyz", "zxz", "xzy", "xyz", "yxz", "yzx", "zyx", "zxy"]:
                        expected.add(key + (o,))
                else:
                    expected.add(key)
            got = set(module.dispatch_map)
            total += len(got)
            if got != expected:
                miss = [common.sig_name(k) for k in list(expected - got)[:3]]
                extra = [common.sig_name(k) for k in list(got - expected)[:3]]
                bad.append(f"{pkg}.{name}: missing {miss} unexpected {extra}")
            for k, v in module.dispatch_map.items():
                if not callable(v[0]):
                    bad.append(f"{pkg}.{name}[{common.sig_name(k)}] is not callable")
        return [(f"dispatch-maps-complete-{total}-entries", G.true(not bad, "; ".join(bad[:5])))] + [(f"mismatch:{b[:90]}", G.true(False, b)) for b in bad[:10]]

    return fn


def f_operators(system):
    d = len(system) + 1

    def fn(R):
        lib = R.lib
        a = R.vec(system, "1", offaxis=True)
        b = R.vec(lanes.ALL_SYS[d][(len(system) * 3) % len(lanes.ALL_SYS[d])], "2", momentum=True, offaxis=True)
        tau = d == 4 and system[2] == "tau"
        k = R.real("k", "pos" if tau else "nonzero")
        goals = []

        def same_result(label, x, y):
            if isinstance(x, Vector) or isinstance(y, Vector):
                if not (isinstance(x, Vector) and isinstance(y, Vector)):
                    goals.append((f"{label}:kind", G.true(False)))
                    return
                goals.append((f"{label}:type", G.true(type(x) is type(y), f"{type(x).__name__} vs {type(y).__name__}")))
                sx, cx = lanes.stored(x)
                sy, cy = lanes.stored(y)
                goals.append((f"{label}:system", G.true(sx == sy)))
                for i, (p, q) in enumerate(zip(cx, cy)):
                    goals.append((f"{label}[{i}]", G.true(True) if p is q else G.eq(p, q)))
            elif isinstance(x, (bool, numpy.bool_)) or hasattr(x, "t") and not hasattr(x, "n"):
                goals.append((label, G.iff(x, y)))
            else:
                goals.append((label, G.true(True) if x is y else G.eq(x, y)))

        same_result("+", a + b, a.add(b))
        same_result("-", a - b, a.subtract(b))
        same_result("*", a * k, a.scale(k))
        same_result("r*", k * a, a.scale(k))
        same_result("/", a / k, a.scale(1 / k))
        same_result("@", a @ b, a.dot(b))
        goals.append(("==", G.iff(a == b, a.equal(b))))
        goals.append(("!=", G.iff(a != b, a.not_equal(b))))
        if not tau:
            same_result("neg", -a, a.scale(-1))
        goals.append(("pos", G.same(+a, a)))
        norm = {2: lambda v: v.rho, 3: lambda v: v.mag, 4: lambda v: v.tau}[d]
        norm2 = {2: lambda v: v.rho2, 3: lambda v: v.mag2, 4: lambda v: v.tau2}[d]
        c = spec.cart(lib, a)
        if d == 4:
            R.assume(spec.tau2(lib, c) >= 0)
        same_result("abs", abs(a), norm(a))
        same_result("**2", a**2, norm2(a))
        n1 = norm(a)
        same_result("**3", a**3, n1 * n1 * n1)
        return goals

    return fn


def f_numpy_pairings(d):
    """handler priority object < NumPy and the flavor rule in mixed pairings (NumPy lane of C03)"""

    def fn(R):
        import numpy as _np

        from . import c03

        bad = []
        n = 0
        s1 = lanes.ALL_SYS[d][1]
        s2 = lanes.ALL_SYS[d][-1]
        calls = [("add", lambda a, b: a.add(b), d, True), ("subtract", lambda a, b: a.subtract(b), d, True), ("op+", lambda a, b: a + b, d, True), ("op-", lambda a, b: a - b, d, True)]
        if d == 3:
            calls += [("cross", lambda a, b: a.cross(b), 3, True), ("rotate_axis", lambda a, b: a.rotate_axis(b, R.real("ang", "angle")), 3, False)]
        if d == 4:
            calls += [("boost_p4", lambda a, b: a.boost_p4(b), 4, True), ("boost", lambda a, b: a.boost(b), 4, True)]
        for pairing in ("nn", "no", "on"):
            for m1, m2 in itertools.product((False, True), repeat=2):
                tag = f"{pairing}{int(m1)}{int(m2)}"
                if pairing[0] == "n":
                    a, _ = c03.np_operand(R, s1, "a" + tag, (2,), m1)
                else:
                    a = lanes.build(c03.lane(R)[0], s1, lanes.stored(R.vec(s1, "a" + tag, momentum=m1, offaxis=True))[1], m1)
                if pairing[1] == "n":
                    b, _ = c03.np_operand(R, s2, "b" + tag, (2,), m2)
                else:
                    b = lanes.build(c03.lane(R)[0], s2, lanes.stored(R.vec(s2, "b" + tag, momentum=m2, offaxis=True))[1], m2)
                for label, call, rdim, counted in calls:
                    if not counted and pairing == "on":
                        continue  # the axis is a secondary argument: an object vector stays an object (outside this lattice)
                    n += 1
                    try:
                        r = call(a, b)
                    except core_SymbolicBranch:
                        continue
                    except Exception as e:
                        bad.append(f"{label}/{tag}: raised {type(e).__name__}: {str(e)[:60]}")
                        continue
                    if not isinstance(r, Vector):
                        bad.append(f"{label}/{tag}: result {type(r).__name__}")
                        continue
                    if not isinstance(r, _np.ndarray) and (counted or pairing[0] == "n"):
                        bad.append(f"{label}/{tag}: backend of the result is {type(r).__name__}, an array operand has priority")
                    want_m = (m1 or m2) if counted else m1
                    if _is_mom(r) != want_m:
                        bad.append(f"{label}/{tag}: flavor {type(r).__name__}, momentum expected: {want_m}")
                    nd = 2 + ("z" in r.dtype.names or "theta" in r.dtype.names or "eta" in r.dtype.names) + ("t" in r.dtype.names or "tau" in r.dtype.names) if isinstance(r, _np.ndarray) else _dim(r)
                    if nd != rdim:
                        bad.append(f"{label}/{tag}: dimension {nd} != {rdim}")
        return [(f"lattice-{n}-points", G.true(not bad, "; ".join(bad[:6])))] + [(f"mismatch:{b[:90]}", G.true(False, b)) for b in bad[:10]]

    return fn


from symx.core import SymbolicBranch as core_SymbolicBranch  # noqa: E402


def families(tier="quick"):
    fams = []
    M = "vector._methods."

    def add(key, fn, functions):
        fams.append(Family(f"{PID}/{key}", fn, defd=False, functions=functions, hard_s=600, structural=not key.startswith("operators")))

    add("dispatch-maps", f_dispatch_maps(), ["vector._compute.*.dispatch_map", M + "_from_signature"])
    for name, (dmin, rule, call) in UNARY_VEC.items():
        for d in range(dmin, 5):
            add(f"unary/{name}/{d}D", f_unary_lattice(name, d), [M + "_flavor_of", M + "_handler_of", f"vector.backends.object.VectorObject{d}D._wrap_result"])
    for name in BINARY:
        for d1 in (2, 3, 4):
            for d2 in (2, 3, 4):
                add(f"binary/{name}/{d1}Dx{d2}D", f_binary_lattice(name, d1, d2), [M + "_flavor_of", M + "_handler_of", M + "_maybe_same_dimension_error", M + "_compute_module_of", M + "dim"])
                if BINARY[name][0] == "same" and d1 != d2:
                    add(f"like/{name}/{d1}Dx{d2}D", f_like_fixes(name, d1, d2), [M + "Vector.like"])
    for d in (2, 3, 4):
        add(f"numpy-pairings/{d}D", f_numpy_pairings(d), [M + "_handler_of", M + "_flavor_of", M + "_get_handler_index", "vector.backends.numpy.VectorNumpy.__array_ufunc__"])
    for d in (2, 3, 4):
        for s in lanes.ALL_SYS[d]:
            add(f"operators/{lanes.sysname(s)}", f_operators(s), ["vector.backends.object.VectorObject.__array_ufunc__", "vector.backends.object.VectorObject.__add__"])
    return fams
