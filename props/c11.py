"""C11 — vector-space, dot, cross and unit-vector laws."""
from __future__ import annotations

import numpy

from symx import lanes
from symx import run as G
from symx.driver import Family
from spec import model as spec

from . import laws

PID = "C11"
EXPLANATION = (
    "bounded SMT checking of the symbolically executed real code: the operators and methods (+, -, *, /, unary -, @, dot, cross, unit, abs, "
    "**, numpy.sqrt/cbrt/power/square) of the object backend are executed on z3-term vectors in every coordinate system (same-system pairs and a "
    "covering set of mixed pairs); z3 (QF_NRA with normal-form preprocessing) decides commutativity, associativity, a+b-b=a, distributivity, "
    "composition of scalings, -a=(-1)a, symmetry and bilinearity of the dot product, v.v = rho2|mag2|tau2, antisymmetry, bilinearity, "
    "orthogonality and the Lagrange identity of the cross product, unit() has norm one and is parallel, and the norm-based ufunc overloads"
)
BOUNDS = {"semantics": "exact reals", "nesting": "nested operations are executed directly on whatever the inner call returned", "scale": "negative factors only for t-stored vectors (tau storage represents t >= 0 only)"}
K = "vector._compute."


def _pkg(d):
    return ("planar", "spatial", "lorentz")[d - 2]


def f_add_laws(s1, s2):
    d = len(s1) + 1

    def fn(R):
        lib = R.lib
        a = R.vec(s1, "1")
        b = R.vec(s2, "2", momentum=True)
        ca, cb = spec.cart(lib, a), spec.cart(lib, b)
        sm = [x + y for x, y in zip(ca, cb)]
        ab, ba = a + b, b + a
        laws.assume_result_representable(R, lanes.stored(ab)[0], sm)
        laws.assume_result_representable(R, lanes.stored(ba)[0], sm)
        goals = laws.same_vector(R, ab, ba, "commutative")
        goals += laws.same_vector(R, a.add(b), sm, "add-method", ref_is_cart=True)
        # a + b - b == a  (nested)
        back = ab - b
        laws.assume_result_representable(R, lanes.stored(back)[0], ca)
        goals += laws.same_vector(R, back, ca, "a+b-b", ref_is_cart=True)
        goals.append(("sub-anti", G.true(True)))
        df = [x - y for x, y in zip(ca, cb)]
        amb = a - b
        laws.assume_result_representable(R, lanes.stored(amb)[0], df)
        goals += laws.same_vector(R, amb, df, "subtract", ref_is_cart=True)
        return goals

    return fn


def f_assoc(s1, s2, s3):
    def fn(R):
        lib = R.lib
        a, b, c = R.vec(s1, "1"), R.vec(s2, "2"), R.vec(s3, "3")
        ca, cb, cc = spec.cart(lib, a), spec.cart(lib, b), spec.cart(lib, c)
        tot = [x + y + z for x, y, z in zip(ca, cb, cc)]
        ab = a + b
        laws.assume_result_representable(R, lanes.stored(ab)[0], [x + y for x, y in zip(ca, cb)])
        bc = b + c
        laws.assume_result_representable(R, lanes.stored(bc)[0], [x + y for x, y in zip(cb, cc)])
        l, r = ab + c, a + bc
        laws.assume_result_representable(R, lanes.stored(l)[0], tot)
        laws.assume_result_representable(R, lanes.stored(r)[0], tot)
        return laws.same_vector(R, l, tot, "(a+b)+c", ref_is_cart=True) + laws.same_vector(R, r, tot, "a+(b+c)", ref_is_cart=True)

    return fn


def f_scale_laws(s1, s2):
    def fn(R):
        lib = R.lib
        a = R.vec(s1, "1")
        b = R.vec(s2, "2")
        tau_stored = len(s1) == 3 and s1[2] == "tau"
        k = R.real("k", "nonneg" if tau_stored else "real")
        l = R.real("l", "nonneg" if tau_stored else "real")
        ca, cb = spec.cart(lib, a), spec.cart(lib, b)
        goals = []
        # (k l) a == k (l a)
        la = l * a
        goals += laws.same_vector(R, k * la, [k * l * x for x in ca], "k(la)", ref_is_cart=True)
        goals += laws.same_vector(R, (k * l) * a, [k * l * x for x in ca], "(kl)a", ref_is_cart=True)
        goals += laws.same_vector(R, a * k, [k * x for x in ca], "a*k", ref_is_cart=True)
        goals += laws.same_vector(R, a.scale(k), [k * x for x in ca], "scale", ref_is_cart=True)
        if not tau_stored:
            goals += laws.same_vector(R, -a, [-x for x in ca], "neg", ref_is_cart=True)
            goals += laws.same_vector(R, -a, a * (-1), "neg=(-1)a")
        goals += laws.same_vector(R, +a, a, "pos")
        # k (a + b) == k a + k b
        if len(s2) == 3 and s2[2] == "tau":
            R.assume(k >= 0)
        sm = [x + y for x, y in zip(ca, cb)]
        ab = a + b
        laws.assume_result_representable(R, lanes.stored(ab)[0], sm)
        lhs = k * ab
        ka, kb = k * a, k * b
        rhs = ka + kb
        ks = [k * x for x in sm]
        laws.assume_result_representable(R, lanes.stored(lhs)[0], ks)
        laws.assume_result_representable(R, lanes.stored(rhs)[0], ks)
        goals += laws.same_vector(R, lhs, ks, "k(a+b)", ref_is_cart=True)
        goals += laws.same_vector(R, rhs, ks, "ka+kb", ref_is_cart=True)
        R2 = R.real("q", "nonzero")
        if tau_stored:
            R.assume(R2 > 0)
        goals += laws.same_vector(R, a / R2, [x / R2 for x in ca], "a/q", ref_is_cart=True)
        return goals

    return fn


def f_dot_laws(s1, s2, s3):
    def fn(R):
        lib = R.lib
        a, b, c = R.vec(s1, "1"), R.vec(s2, "2", momentum=True), R.vec(s3, "3")
        k = R.real("k", "nonneg" if (len(s2) == 3 and s2[2] == "tau") else "real")
        ca, cb, cc = spec.cart(lib, a), spec.cart(lib, b), spec.cart(lib, c)
        d = len(s1) + 1
        R.assume(k != 0)  # k*b must stay representable in polar / eta / theta storage (rho > 0)
        goals = [
            ("symmetric", G.eq(a.dot(b), b.dot(a))),
            ("definition", G.eq(a.dot(b), laws.mdot(ca, cb))),
            ("matmul", G.eq(a @ b, a.dot(b))),
            ("homogeneous", G.eq(a.dot(k * b), k * a.dot(b))),
        ]
        bc = b + c
        laws.assume_result_representable(R, lanes.stored(bc)[0], [x + y for x, y in zip(cb, cc)])
        goals.append(("additive", G.eq(a.dot(bc), a.dot(b) + a.dot(c))))
        norm2 = {2: lambda v: v.rho2, 3: lambda v: v.mag2, 4: lambda v: v.tau2}[d]
        goals.append(("v.v=norm2", G.eq(a.dot(a), norm2(a))))
        return goals

    return fn


def f_cross_laws(s1, s2, s3):
    def fn(R):
        lib = R.lib
        a, b, c = R.vec(s1, "1"), R.vec(s2, "2"), R.vec(s3, "3")
        k = R.real("k")
        ca, cb, cc = spec.cart(lib, a), spec.cart(lib, b), spec.cart(lib, c)
        axb = a.cross(b)
        cx = spec.cross(lib, ca, cb)
        laws.assume_result_representable(R, lanes.stored(axb)[0], cx)
        goals = laws.same_vector(R, axb, cx, "definition", ref_is_cart=True)
        bxa = b.cross(a)
        laws.assume_result_representable(R, lanes.stored(bxa)[0], cx)
        goals += laws.same_vector(R, bxa, [-x for x in cx], "antisymmetric", ref_is_cart=True)
        goals.append(("orthogonal-a", G.eq(axb.dot(a), 0)))
        goals.append(("orthogonal-b", G.eq(axb.dot(b), 0)))
        goals.append(("lagrange", G.eq(axb.mag2, a.mag2 * b.mag2 - a.dot(b) ** 2)))
        bc = b + c
        sm = [x + y for x, y in zip(cb, cc)]
        laws.assume_result_representable(R, lanes.stored(bc)[0], sm)
        axbc = a.cross(bc)
        ref = spec.cross(lib, ca, sm)
        laws.assume_result_representable(R, lanes.stored(axbc)[0], ref)
        goals += laws.same_vector(R, axbc, ref, "additive", ref_is_cart=True)
        return goals

    return fn


def f_unit_spacelike(s1):
    """unit() of a spacelike 4D vector: tau2 becomes -1 and the direction is kept"""

    def fn(R):
        lib = R.lib
        a = R.vec(s1, "1")
        ca = spec.cart(lib, a)
        t2 = spec.tau2(lib, ca)
        R.assume(t2 < 0)
        u = a.unit()
        k = lib.sqrt(-t2)
        goals = [("unit-norm", G.eq(u.tau2, -1))]
        goals += laws.same_vector(R, u, [x / k for x in ca], "unit-parallel", ref_is_cart=True)
        return goals

    return fn


def f_unit_and_norm(s1):
    d = len(s1) + 1

    def fn(R):
        lib = R.lib
        a = R.vec(s1, "1")
        ca = spec.cart(lib, a)
        if d < 4:
            laws.nonzero(R, ca)
        else:
            R.assume(spec.tau2(lib, ca) > 0)
        u = a.unit()
        norm = {2: lambda v: v.rho, 3: lambda v: v.mag, 4: lambda v: v.tau}[d]
        norm2 = {2: lambda v: v.rho2, 3: lambda v: v.mag2, 4: lambda v: v.tau2}[d]
        n = norm(a)
        goals = [("unit-norm", G.eq(norm2(u), 1))]
        goals += laws.same_vector(R, u, [x / n for x in ca], "unit-parallel", ref_is_cart=True)
        goals.append(("abs", G.eq(abs(a), n)))
        goals.append(("pow2", G.eq(a**2, norm2(a))))
        goals.append(("square", G.eq(numpy.square(a), norm2(a))))
        goals.append(("numpy.absolute", G.eq(numpy.absolute(a), n)))
        # numpy.sqrt / cbrt / power of a vector are functions of its norm
        sq = numpy.sqrt(a)
        goals.append(("sqrt^2=norm", G.eq(sq * sq, n)))
        goals.append(("sqrt>=0", G.ge(sq, 0)))
        cb = numpy.cbrt(a)
        goals.append(("cbrt^3=norm", G.eq(cb * cb * cb, n)))
        goals.append(("power3", G.eq(numpy.power(a, 3), n * n * n)))
        goals.append(("pow3", G.eq(a**3, n * n * n)))
        return goals

    return fn


def families(tier="quick"):
    fams = []

    def add(key, fn, functions, defd=False):
        _f = Family(f"{PID}/{key}", fn, defd=defd, functions=functions)
        _f.abstract = True
        fams.append(_f)

    for d in (2, 3, 4):
        allsys = lanes.ALL_SYS[d]
        p = _pkg(d)
        ufunc = "vector.backends.object.VectorObject.__array_ufunc__"
        for i, s1 in enumerate(allsys):
            n1 = lanes.sysname(s1)
            seconds = dict.fromkeys([s1, lanes.CART[d], allsys[(i * 5 + 1) % len(allsys)], allsys[(i * 7 + 3) % len(allsys)]]) if tier != "thorough" else allsys
            for s2 in seconds:
                n2 = lanes.sysname(s2)
                add(f"add/{n1}|{n2}", f_add_laws(s1, s2), [K + f"{p}.add", K + f"{p}.subtract", ufunc])
                s3 = allsys[(i + 2) % len(allsys)]
                add(f"dot/{n1}|{n2}|{lanes.sysname(s3)}", f_dot_laws(s1, s2, s3), [K + f"{p}.dot", K + f"{p}.add", K + f"{p}.scale", ufunc])
                if d == 3:
                    add(f"cross/{n1}|{n2}|{lanes.sysname(s3)}", f_cross_laws(s1, s2, s3), [K + "spatial.cross", K + "spatial.dot", K + "spatial.mag2"])
            s2 = allsys[(i * 5 + 1) % len(allsys)]
            s3 = allsys[(i * 7 + 3) % len(allsys)]
            add(f"assoc/{n1}|{lanes.sysname(s2)}|{lanes.sysname(s3)}", f_assoc(s1, s2, s3), [K + f"{p}.add"])
            add(f"assoc/{n1}|{n1}|{n1}", f_assoc(s1, s1, s1), [K + f"{p}.add"])
            add(f"scale/{n1}|{lanes.sysname(s2)}", f_scale_laws(s1, s2), [K + f"{p}.scale", K + f"{p}.add", ufunc])
            add(f"scale/{n1}|{n1}", f_scale_laws(s1, s1), [K + f"{p}.scale", K + f"{p}.add", ufunc])
            if d == 4 and s1[2] == "t":
                add(f"unit-spacelike/{n1}", f_unit_spacelike(s1), [K + "lorentz.unit", K + "lorentz.tau2"])
            add(f"unit-norm/{n1}", f_unit_and_norm(s1), [K + f"{p}.unit", ufunc, K + ("planar.rho" if d == 2 else "spatial.mag" if d == 3 else "lorentz.tau")])
    return fams
