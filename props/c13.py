"""C13 — ranges, sign conventions and classification predicates.

Every clause of the property is an obligation family over the coordinate systems: the public
accessor / predicate is executed on symbolic object vectors and z3 decides the stated range, sign
or equivalence for all real operands (range facts of atan2/acos/atan/mod, quadrant facts,
exp monotonicity).  'never NaN' clauses are definedness obligations.
"""
from __future__ import annotations

from symx import lanes
from symx import run as G
from symx.driver import Family
from spec import model as spec

PID = "C13"
EXPLANATION = (
    "bounded SMT checking of the symbolically executed real code: accessors (phi, theta, rho, mag, rho2, mag2, t2, costheta, cottheta, t, tau, "
    "beta, gamma, deltaphi, deltaangle) and predicates (is_timelike/lightlike/spacelike, is_parallel/antiparallel/perpendicular) of the object "
    "backend are executed on z3-term coordinates in every coordinate system; z3 (QF_NRA) decides each documented range / sign / classification "
    "statement for all real operands; definedness obligations decide the 'never NaN' clauses; the coordinates stored by vector-valued operations obey the "
    "same ranges; IEEE guard lane: deltaangle/theta/rho/rho2/mag/mag2/t/t2/tau are executed on an order abstraction of IEEE-754 arithmetic (a fresh z3 "
    "variable per operation, constrained only by facts valid for every correctly rounded result) and z3 decides that every argument of sqrt/arccos is in "
    "the domain and the result in range and not NaN under every rounding; an abstract counterexample is reported only if it reproduces on the float64 backend"
)
BOUNDS = {
    "semantics": "exact reals for the clause families; every float64 rounding (order abstraction) for the ieee-guards families",
    "outside": "values of float phi/deltaphi exactly at +-pi under rounding; ieee-guards: overflow, underflow of squares, zero denominators, arithmetic on infinities; NumPy/Awkward backends (shared kernels, C03 lane)",
}


def _pi(R):
    return R.lib.pi


def f_phi(system):
    def fn(R):
        v = R.vec(system, "1", offaxis=True)
        p = v.phi
        return [("phi>=-pi", G.ge(p, -_pi(R))), ("phi<=pi", G.le(p, _pi(R)))]

    return fn


def f_theta(system):
    def fn(R):
        v = R.vec(system, "1", offaxis=True)
        th = v.theta
        return [("theta>=0", G.ge(th, 0)), ("theta<=pi", G.le(th, _pi(R)))]

    return fn


def f_nonneg(system):
    def fn(R):
        v = R.vec(system, "1")
        goals = [("rho>=0", G.ge(v.rho, 0)), ("rho2>=0", G.ge(v.rho2, 0))]
        if len(system) >= 2:
            goals += [("mag>=0", G.ge(v.mag, 0)), ("mag2>=0", G.ge(v.mag2, 0))]
        if len(system) == 3:
            goals += [("t2>=0", G.ge(v.t2, 0))]
        return goals

    return fn


def f_signs(system):
    def fn(R):
        v = R.vec(system, "1", offaxis=True)
        z = spec.cart(R.lib, v)[2]
        return [("sign(costheta)=sign(z)", G.sign_eq(v.costheta, z)), ("sign(cottheta)=sign(z)", G.sign_eq(v.cottheta, z))]

    return fn


def f_t_from_tau(system):
    """t derived from tau is >= 0 and defined for every finite stored value, negative tau included"""

    def fn(R):
        v = R.vec(system, "1", tau_nonneg=False)
        return [("t>=0", G.ge(v.t, 0))]

    return fn


def f_tau_from_t(system):
    def fn(R):
        v = R.vec(system, "1")
        c = spec.cart(R.lib, v)
        tau = v.tau
        t2m = c[3] * c[3] - c[0] * c[0] - c[1] * c[1] - c[2] * c[2]
        return [("tau<0 iff spacelike", G.iff(G.lt(tau, 0), G.lt(t2m, 0))), ("sign(tau)=sign(t2-mag2)", G.sign_eq(tau, t2m))]

    return fn


def f_beta_gamma(system):
    def fn(R):
        v = R.vec(system, "1")
        c = spec.cart(R.lib, v)
        R.assume(c[3] > 0)
        R.assume(c[3] * c[3] - c[0] * c[0] - c[1] * c[1] - c[2] * c[2] > 0)
        b, g = v.beta, v.gamma
        return [("beta>=0", G.ge(b, 0)), ("beta<1", G.lt(b, 1)), ("gamma>=1", G.ge(g, 1))]

    return fn


def f_beta_lightlike(system):
    def fn(R):
        v = R.vec(system, "1")
        c = spec.cart(R.lib, v)
        R.assume(c[3] > 0)
        R.assume(c[3] * c[3] - c[0] * c[0] - c[1] * c[1] - c[2] * c[2] == 0)
        return [("beta=1", G.eq(v.beta, 1))]

    return fn


def f_causal(system):
    def fn(R):
        v = R.vec(system, "1")
        tol = R.real("tol", "tol")
        c = spec.cart(R.lib, v)
        t2m = c[3] * c[3] - c[0] * c[0] - c[1] * c[1] - c[2] * c[2]
        tl, ll, sl = v.is_timelike(tol), v.is_lightlike(tol), v.is_spacelike(tol)
        goals = [
            ("timelike/lightlike disjoint", G.neg(G.holds(tl & ll))),
            ("lightlike/spacelike disjoint", G.neg(G.holds(sl & ll))),
            ("timelike/spacelike disjoint", G.neg(G.holds(tl & sl))),
            ("timelike => t2-mag2 > 0", G.implies(tl, G.gt(t2m, 0))),
            ("spacelike => t2-mag2 < 0", G.implies(sl, G.lt(t2m, 0))),
            ("t2-mag2 > tol => timelike", G.implies(G.gt(t2m, tol), tl)),
            ("t2-mag2 < -tol => spacelike", G.implies(G.lt(t2m, -tol), sl)),
            ("|t2-mag2| < tol => lightlike", G.implies(G.conj(G.lt(t2m, tol), G.gt(t2m, -tol)), ll)),
            ("lightlike => |t2-mag2| <= tol", G.implies(ll, G.conj(G.le(t2m, tol), G.ge(t2m, -tol)))),
        ]
        return goals

    return fn


def f_deltaphi(s1, s2):
    def fn(R):
        a = R.vec(s1, "1", offaxis=True)
        b = R.vec(s2, "2", offaxis=True)
        d = a.deltaphi(b)
        return [("deltaphi>=-pi", G.ge(d, -_pi(R))), ("deltaphi<=pi", G.le(d, _pi(R)))]

    return fn


def f_deltaangle(s1, s2):
    def fn(R):
        a = R.vec(s1, "1")
        b = R.vec(s2, "2")
        for v in (a, b):
            c = spec.cart(R.lib, v)
            R.assume((c[0] != 0) | (c[1] != 0) | (c[2] != 0))
        d = a.deltaangle(b)
        return [("deltaangle>=0", G.ge(d, 0)), ("deltaangle<=pi", G.le(d, _pi(R)))]

    return fn


def f_directional(s1, s2):
    """is_parallel / is_antiparallel / is_perpendicular <=> cosine within tol of +1 / -1 / 0"""

    def fn(R):
        lib = R.lib
        a = R.vec(s1, "1")
        b = R.vec(s2, "2")
        tol = R.real("tol", "tol")
        ca, cb = spec.cart(lib, a), spec.cart(lib, b)
        n = min(len(ca), len(cb), 3)
        ca, cb = ca[:n], cb[:n]
        for c in (ca, cb):
            nz = c[0] != 0
            for x in c[1:]:
                nz = nz | (x != 0)
            R.assume(nz)
        dot = sum((x * y for x, y in zip(ca[1:], cb[1:])), ca[0] * cb[0])
        na = lib.sqrt(sum((x * x for x in ca[1:]), ca[0] * ca[0]))
        nb = lib.sqrt(sum((x * x for x in cb[1:]), cb[0] * cb[0]))
        nn = na * nb
        par, anti, perp = a.is_parallel(b, tol), a.is_antiparallel(b, tol), a.is_perpendicular(b, tol)
        return [
            ("cos > 1-tol => parallel", G.implies(G.gt(dot, (1 - tol) * nn), par)),
            ("parallel => cos >= 1-tol", G.implies(par, G.ge(dot, (1 - tol) * nn))),
            ("cos < -1+tol => antiparallel", G.implies(G.lt(dot, (tol - 1) * nn), anti)),
            ("antiparallel => cos <= -1+tol", G.implies(anti, G.le(dot, (tol - 1) * nn))),
            ("|cos| < tol => perpendicular", G.implies(G.conj(G.lt(dot, tol * nn), G.gt(dot, -tol * nn)), perp)),
            ("perpendicular => |cos| <= tol", G.implies(perp, G.conj(G.le(dot, tol * nn), G.ge(dot, -tol * nn)))),
        ]

    return fn


RESULT_OPS = ("scale", "neg", "rotateZ", "add", "subtract", "unit", "to_polar")


def f_result_ranges(system, op):
    """the ranges also hold for the coordinates a vector-valued operation stores in its result (a result is a vector like any other:
    its phi/theta/rho accessors return the stored numbers)"""
    d = len(system) + 1

    def fn(R):
        v = R.vec(system, "1", offaxis=True)
        c = spec.cart(R.lib, v)
        if d == 4:
            R.assume(c[3] > 0)
            R.assume(spec.tau2(R.lib, c) > 0)
        if op == "scale":
            r = v.scale(R.real("k", "nonzero"))
        elif op == "neg":
            r = -v
        elif op == "rotateZ":
            r = v.rotateZ(R.real("a", "angle"))
        elif op in ("add", "subtract"):
            w = R.vec(system, "2", offaxis=True)
            if d == 4:
                cw = spec.cart(R.lib, w)
                R.assume(cw[3] > 0)
                R.assume(spec.tau2(R.lib, cw) > 0)
            cw = spec.cart(R.lib, w)
            sg = 1 if op == "add" else -1
            # the exact result is representable in polar systems (phi / theta / eta of the result exist)
            R.assume(((c[0] + sg * cw[0]) != 0) | ((c[1] + sg * cw[1]) != 0))
            r = getattr(v, op)(w)
        elif op == "unit":
            r = v.unit()
        else:
            r = {2: lambda: v.to_rhophi(), 3: lambda: v.to_rhophitheta(), 4: lambda: v.to_rhophithetat()}[d]()
        rs, rc = lanes.stored(r)
        goals = []
        if rs[0] == "rhophi":
            goals += [("result.rho>=0", G.ge(rc[0], 0)), ("result.phi>=-pi", G.ge(rc[1], -_pi(R))), ("result.phi<=pi", G.le(rc[1], _pi(R)))]
            goals += [("result.phi-accessor", G.true(r.phi is rc[1]))]
        if len(rs) > 1 and rs[1] == "theta":
            goals += [("result.theta>=0", G.ge(rc[2], 0)), ("result.theta<=pi", G.le(rc[2], _pi(R)))]
        if not goals:
            goals = [("result-is-cartesian", G.true(True))]
        return goals

    return fn


# ---- IEEE guard lane (symx/guard.py): clamps in front of sqrt / arccos under every rounding -----------------------

GUARDED = {
    # module: (package, result obligation)
    "deltaangle": ("spatial", "angle"),
    "theta": ("spatial", "angle"),
    "rho": ("planar", "nonneg"),
    "rho2": ("planar", "nonneg"),
    "mag": ("spatial", "nonneg"),
    "mag2": ("spatial", "nonneg"),
    "t": ("lorentz", "nonneg-if-tau"),
    "t2": ("lorentz", "nonneg"),
    "tau": ("lorentz", "defined"),
}



def families(tier="quick"):
    fams = []
    K = "vector._compute."

    def add(key, fn, functions, defd=True):
        fams.append(Family(f"{PID}/{key}", fn, defd=defd, functions=functions))

    for d in (2, 3, 4):
        for s in lanes.ALL_SYS[d]:
            n = lanes.sysname(s)
            add(f"phi-range/{n}", f_phi(s), [K + "planar.phi"])
            for op in RESULT_OPS:
                if op in ("add", "subtract") and d == 4 and tier != "thorough":
                    continue  # the 4D kernels reuse the 3D ones for the spatial part
                add(f"result-ranges/{op}/{n}", f_result_ranges(s, op), [K + f"{('planar', 'spatial', 'lorentz')[d - 2]}.{op}" if op in ("scale", "rotateZ", "add", "subtract", "unit") else "vector._methods.Vector.to_rhophi"])
            add(f"nonneg/{n}", f_nonneg(s), [K + "planar.rho", K + "planar.rho2", K + "spatial.mag", K + "spatial.mag2", K + "lorentz.t2"][: {2: 2, 3: 4, 4: 5}[d]])
            if d >= 3:
                add(f"theta-range/{n}", f_theta(s), [K + "spatial.theta", K + "spatial.costheta"])
                add(f"signs/{n}", f_signs(s), [K + "spatial.costheta", K + "spatial.cottheta"])
            if d == 4:
                if s[2] == "tau":
                    add(f"t-from-tau/{n}", f_t_from_tau(s), [K + "lorentz.t"])
                else:
                    add(f"tau-from-t/{n}", f_tau_from_t(s), [K + "lorentz.tau", K + "lorentz.tau2"])
                add(f"beta-gamma/{n}", f_beta_gamma(s), [K + "lorentz.beta", K + "lorentz.gamma"])
                add(f"beta-lightlike/{n}", f_beta_lightlike(s), [K + "lorentz.beta"])
                add(f"causal/{n}", f_causal(s), [K + "lorentz.is_timelike", K + "lorentz.is_lightlike", K + "lorentz.is_spacelike", K + "lorentz.dot"], defd=False)
    for s1 in lanes.SYS2:
        for s2 in lanes.SYS2:
            add(f"deltaphi-range/{lanes.sysname(s1)}|{lanes.sysname(s2)}", f_deltaphi(s1, s2), [K + "planar.deltaphi"])
            add(f"directional/{lanes.sysname(s1)}|{lanes.sysname(s2)}", f_directional(s1, s2), [K + "planar.is_parallel", K + "planar.is_antiparallel", K + "planar.is_perpendicular"], defd=False)
    for s1 in lanes.SYS3:
        for s2 in lanes.SYS3:
            add(f"deltaangle-range/{lanes.sysname(s1)}|{lanes.sysname(s2)}", f_deltaangle(s1, s2), [K + "spatial.deltaangle"])
            add(f"directional/{lanes.sysname(s1)}|{lanes.sysname(s2)}", f_directional(s1, s2), [K + "spatial.is_parallel", K + "spatial.is_antiparallel", K + "spatial.is_perpendicular"], defd=False)
    # deltaphi through higher-dimensional vectors (same kernel, other wrapper path)
    from . import guards

    gf, _skipped = guards.families(PID, GUARDED, tier)
    fams += gf
    add("deltaphi-range/rhophi_eta_tau|xy_z_t", f_deltaphi(("rhophi", "eta", "tau"), ("xy", "z", "t")), [K + "planar.deltaphi"])
    add("deltaphi-range/xy_theta|rhophi_z", f_deltaphi(("xy", "theta"), ("rhophi", "z")), [K + "planar.deltaphi"])
    return fams
