"""C15 — in-place updates of object vectors match their functional equivalents.

One inductive step from an arbitrary symbolic pre-state (any class, any coordinate system, arbitrary
symbolic stored values): every setter name with a fresh symbolic value, and every in-place operator
with an operand in every system.  The step post-conditions are the transition relation of the
explicit model of stored coordinates; by induction they cover histories of any length.
"""
from __future__ import annotations

from symx import lanes
from symx import run as G
from symx.driver import Family
from spec import model as spec

from . import laws

PID = "C15"
EXPLANATION = (
    "bounded SMT checking of the symbolically executed real code, one inductive step: starting from an arbitrary symbolic vector object of every class "
    "and coordinate system, each of the 19 setter names is assigned a fresh symbolic value and each in-place operator (+=, -=, *=, /=) is applied "
    "with an operand in every coordinate system and flavor; post-conditions (the assigned coordinate reads back as the same object, the partner "
    "coordinate keeps its value, other groups' stored objects are identical, the stored group has the coordinate type of the assigned name, "
    "object identity/class/coordinate systems preserved by in-place operators, result decoded equals the functional operation, a raising in-place "
    "operation leaves every slot identical) are decided by object identity and by z3 (QF_NRA) for the value statements; induction over this step "
    "covers histories of any length"
)
BOUNDS = {"histories": "any length (inductive step from an arbitrary pre-state; the invariant is 'slots hold coordinate tuples of a legal class', re-established by every step)", "outside": "the SymPy backend's copy of the setters"}

GEN_SETTERS = {2: ["x", "y", "rho", "phi"], 3: ["x", "y", "rho", "phi", "z", "theta", "eta"], 4: ["x", "y", "rho", "phi", "z", "theta", "eta", "t", "tau"]}
MOM_SETTERS = {2: ["px", "py", "pt"], 3: ["px", "py", "pt", "pz"], 4: ["px", "py", "pt", "pz", "E", "e", "energy", "M", "m", "mass"]}
GENERIC_OF = {"px": "x", "py": "y", "pt": "rho", "pz": "z", "E": "t", "e": "t", "energy": "t", "M": "tau", "m": "tau", "mass": "tau"}
GROUP = {"x": ("azimuthal", "xy", 0), "y": ("azimuthal", "xy", 1), "rho": ("azimuthal", "rhophi", 0), "phi": ("azimuthal", "rhophi", 1),
         "z": ("longitudinal", "z", 0), "theta": ("longitudinal", "theta", 0), "eta": ("longitudinal", "eta", 0), "t": ("temporal", "t", 0), "tau": ("temporal", "tau", 0)}
PARTNER = {"x": "y", "y": "x", "rho": "phi", "phi": "rho"}


def _groupsys(v, grp):
    system, _ = lanes.stored(v)
    return {"azimuthal": system[0], "longitudinal": system[1] if len(system) > 1 else None, "temporal": system[2] if len(system) > 2 else None}[grp]


def f_setter(system, momentum, name):
    g = GENERIC_OF.get(name, name)
    grp, gsys, pos = GROUP[g]

    def fn(R):
        lib = R.lib
        v = R.vec(system, "1", momentum=momentum, offaxis=True)
        a = R.real("a")
        R.untrack(v)
        before = {k: getattr(v, k) for k in ("azimuthal", "longitudinal", "temporal") if hasattr(v, k)}
        cls, ident = type(v), id(v)
        partner_before = getattr(v, PARTNER[g]) if g in PARTNER else None
        same_group = _groupsys(v, grp) == gsys
        setattr(v, name, a)
        goals = [
            ("reads-back-same-object", G.same(getattr(v, g), a)),
            ("reads-back-through-name", G.same(getattr(v, name), a)),
            ("class-unchanged", G.true(type(v) is cls and id(v) == ident)),
            ("group-has-type-of-assigned-name", G.true(_groupsys(v, grp) == gsys, f"{_groupsys(v, grp)} vs {gsys}")),
            ("stored-at-position", G.same(getattr(v, grp).elements[pos], a)),
        ]
        for k, obj in before.items():
            if k != grp:
                goals.append((f"{k}-object-untouched", G.same(getattr(v, k), obj)))
        if partner_before is not None:
            p_after = getattr(v, PARTNER[g])
            if PARTNER[g] in ("phi",):
                goals.append(("partner-value", G.eq_angle(p_after, partner_before)))
            else:
                goals.append(("partner-value", G.eq(p_after, partner_before)))
            goals.append(("partner-stored", (G.eq_angle if PARTNER[g] == "phi" else G.eq)(getattr(v, grp).elements[1 - pos], partner_before)))
            if same_group:
                goals.append(("partner-same-object", G.same(p_after, before[grp].elements[1 - pos])))
        # functional equivalent: the same class built from (assigned value, partner) and the untouched groups
        new_coords = [a, partner_before] if pos == 0 else [partner_before, a]
        if grp != "azimuthal":
            new_coords = [a]
        parts = []
        for k in ("azimuthal", "longitudinal", "temporal"):
            if k in before:
                parts.append(tuple(new_coords) if k == grp else tuple(before[k].elements))
        flat_after = [tuple(getattr(v, k).elements) for k in ("azimuthal", "longitudinal", "temporal") if hasattr(v, k)]
        okf = len(flat_after) == len(parts)
        for x, y in zip(flat_after, parts):
            okf = okf and len(x) == len(y)
            for p_, q_ in zip(x, y):
                if q_ is partner_before and p_ is not q_:
                    continue  # value equality of the recomputed partner is the 'partner-stored' goal
                okf = okf and (p_ is q_)
        goals.append(("equals-functional-construction", G.true(okf)))
        return goals

    return fn


def f_inplace(system, momentum, op, s2, mom2):
    def fn(R):
        lib = R.lib
        v = R.vec(system, "1", momentum=momentum)
        R.untrack(v)
        cv = spec.cart(lib, v)
        sys_before = lanes.stored(v)[0]
        cls, ident = type(v), id(v)
        tau_stored = len(system) == 3 and system[2] == "tau"
        if op in ("+=", "-="):
            w = R.vec(s2, "2", momentum=mom2)
            cw = spec.cart(lib, w)
            ref = [x + y for x, y in zip(cv, cw)] if op == "+=" else [x - y for x, y in zip(cv, cw)]
            laws.assume_result_representable(R, system, ref)
            functional = (v + w) if op == "+=" else (v - w)
            if op == "+=":
                v += w
            else:
                v -= w
        else:
            k = R.real("k", "pos" if tau_stored else "nonzero")
            ref = [x * k for x in cv] if op == "*=" else [x / k for x in cv]
            functional = (v * k) if op == "*=" else (v / k)
            if op == "*=":
                v *= k
            else:
                v /= k
        goals = [
            ("identity-and-class", G.true(type(v) is cls and id(v) == ident)),
            ("coordinate-system-kept", G.true(lanes.stored(v)[0] == sys_before, f"{lanes.stored(v)[0]} vs {sys_before}")),
        ]
        goals += laws.same_vector(R, v, ref, "value", ref_is_cart=True)
        goals += laws.same_vector(R, v, functional, "equals-functional")
        return goals

    return fn


def f_inplace_raises(system, momentum):
    def fn(R):
        v = R.vec(system, "1", momentum=momentum)
        d = len(system) + 1
        other_dim = R.vec(lanes.CART[2 if d != 2 else 3], "o")
        same = R.vec(system, "s")
        before = R.frame_violations()
        goals = []

        def attempt(label, thunk, must_raise=True):
            snap = G.snapshot(v)
            try:
                thunk()
                raised = None
            except TypeError:
                raised = "TypeError"
            except Exception as e:
                raised = type(e).__name__
            if must_raise:
                goals.append((f"{label}-raises-TypeError", G.true(raised == "TypeError", str(raised))))
            if raised is not None:
                goals.append((f"{label}-raised-and-left-object-unchanged", G.true(G.snapshot(v) == snap)))

        def iadd(o):
            nonlocal v
            w = v
            w += o

        def isub(o):
            w = v
            w -= o

        def imul(o):
            w = v
            w *= o

        def idiv(o):
            w = v
            w /= o

        attempt("iadd-other-dimension", lambda: iadd(other_dim))
        attempt("isub-other-dimension", lambda: isub(other_dim))
        attempt("iadd-number", lambda: iadd(3.0))
        attempt("isub-string", lambda: isub("a"), must_raise=False)
        attempt("imul-vector", lambda: imul(same))
        attempt("idiv-vector", lambda: idiv(same))
        attempt("imul-string", lambda: imul("a"), must_raise=False)
        attempt("imul-None", lambda: imul(None), must_raise=False)
        return goals

    return fn


def families(tier="quick"):
    fams = []
    OBJ = "vector.backends.object."

    def add(key, fn, functions):
        f = Family(f"{PID}/{key}", fn, defd=False, functions=functions)
        f.abstract = True
        fams.append(f)

    for d in (2, 3, 4):
        for si, s in enumerate(lanes.ALL_SYS[d]):
            n = lanes.sysname(s)
            for mom in (False, True):
                cname = f"{'Momentum' if mom else 'Vector'}Object{d}D"
                names = GEN_SETTERS[d] + (MOM_SETTERS[d] if mom else [])
                for name in names:
                    add(f"set/{cname}/{n}/{name}", f_setter(s, mom, name), [OBJ + f"{cname}.{name}.setter", "vector._compute"])
                allsys = lanes.ALL_SYS[d]
                seconds = dict.fromkeys([s, lanes.CART[d], allsys[(si * 5 + 1) % len(allsys)]]) if tier != "thorough" else allsys
                for s2 in seconds:
                    for op in ("+=", "-="):
                        add(f"inplace/{cname}/{n}/{op}/{lanes.sysname(s2)}/{'mom' if not mom else 'gen'}", f_inplace(s, mom, op, s2, not mom), [OBJ + "_replace_data", OBJ + "VectorObject.__iadd__", OBJ + "VectorObject.__isub__", OBJ + "VectorObject.__array_ufunc__"])
                for op in ("*=", "/="):
                    add(f"inplace/{cname}/{n}/{op}", f_inplace(s, mom, op, None, False), [OBJ + "_replace_data", OBJ + "VectorObject.__imul__", OBJ + "VectorObject.__itruediv__"])
                add(f"inplace-raises/{cname}/{n}", f_inplace_raises(s, mom), [OBJ + "_replace_data", OBJ + "VectorObject.__array_ufunc__", "vector._methods._maybe_same_dimension_error"])
    return fams
