"""Shared enumeration of the compute layer, read from /repo's working tree at run time."""
from __future__ import annotations

import importlib
import inspect
import pkgutil

from symx import lanes
from symx import run as G
from spec import model as spec

from vector._methods import (
    AzimuthalRhoPhi,
    AzimuthalXY,
    LongitudinalEta,
    LongitudinalTheta,
    LongitudinalZ,
    TemporalT,
    TemporalTau,
    Vector,
)

CLS2NAME = {
    AzimuthalXY: "xy",
    AzimuthalRhoPhi: "rhophi",
    LongitudinalZ: "z",
    LongitudinalTheta: "theta",
    LongitudinalEta: "eta",
    TemporalT: "t",
    TemporalTau: "tau",
}
NAME2CLS = {v: k for k, v in CLS2NAME.items()}
PKG_DIM = {"planar": 2, "spatial": 3, "lorentz": 4}

VEC_PARAMS = ("v", "v1", "v2", "vec")
ANGLE_RESULT = {"phi", "deltaphi", "theta", "deltaangle"}
LOG_RESULT = {"eta", "rapidity", "deltaeta"}
BOOL_RESULT = {
    "equal",
    "not_equal",
    "isclose",
    "is_parallel",
    "is_antiparallel",
    "is_perpendicular",
    "is_timelike",
    "is_spacelike",
    "is_lightlike",
}
SCALAR_KIND = {
    "angle": "angle",
    "phi": "angle",
    "theta": "angle",
    "psi": "angle",
    "factor": "real",
    "tolerance": "tol",
    "rtol": "tol",
    "atol": "tol",
    "beta": "beta",
    "gamma": "gamma",
    "u": "real",
    "i": "real",
    "j": "real",
    "k": "real",
}


def compute_modules():
    """[(pkg, name, module)] for every compute module that has a dispatch_map"""
    out = []
    for pkg in ("planar", "spatial", "lorentz"):
        p = importlib.import_module(f"vector._compute.{pkg}")
        for mi in sorted(pkgutil.iter_modules(p.__path__), key=lambda m: m.name):
            m = importlib.import_module(f"vector._compute.{pkg}.{mi.name}")
            if hasattr(m, "dispatch_map") and hasattr(m, "dispatch"):
                out.append((pkg, mi.name, m))
    return out


def dispatch_params(module):
    return list(inspect.signature(module.dispatch).parameters)


def split_signature(sig):
    """dispatch_map key -> (list of operand systems, extras)"""
    systems, extras, cur = [], [], None
    for part in sig:
        if isinstance(part, str):
            extras.append(part)
            continue
        nm = CLS2NAME[part]
        if nm in ("xy", "rhophi"):
            cur = [nm]
            systems.append(cur)
        else:
            cur.append(nm)
    return [tuple(s) for s in systems], extras


def sig_name(sig):
    return "|".join(CLS2NAME[p] if not isinstance(p, str) else p for p in sig)


def matrix(R, n, tag="m"):
    names = "xyzt"[:n]
    return {a + b: R.real(f"{tag}{a}{b}") for a in names for b in names}


def is_vector(x):
    return isinstance(x, Vector)


# set by a family whose first operand is a spacelike vector stored with a negative tau: results stored with tau are then
# compared through the signed tau^2 and only t >= 0 is required of a representable result
SIGNED_TAU = False


def compare_results(R, name, got, ref, lib):
    """goals stating that two results of one operation denote the same value"""
    goals = []
    if is_vector(got) or is_vector(ref):
        if not (is_vector(got) and is_vector(ref)):
            return [("result-kind", G.true(False, f"{type(got).__name__} vs {type(ref).__name__}"))]
        cg, cr = spec.cart(lib, got), spec.cart(lib, ref)
        if len(cg) != len(cr):
            return [("result-dimension", G.true(False, f"{len(cg)} vs {len(cr)}"))]
        sg, stg = lanes.stored(got)
        sr, strf = lanes.stored(ref)
        tau_vs_t = len(sg) == 3 and sg[2] == "tau" and sr[2] == "t"
        for nm, a, b in zip("xyzt", cg, cr):
            if nm == "t" and tau_vs_t:
                # got stores tau >= 0: it denotes the vector (x, y, z, sqrt(tau^2 + mag^2)); with the spatial
                # parts equal and ref's t >= 0 (representability) this is tau^2 == t^2 - mag^2
                tau = stg[3]
                tt = lib.copysign(tau * tau, tau) if SIGNED_TAU else tau * tau
                goals.append(("result.tau2", G.eq(tt, cr[3] * cr[3] - cr[0] * cr[0] - cr[1] * cr[1] - cr[2] * cr[2])))
                goals.append(("result.t>=0", G.ge(cr[3], 0)))
                continue
            goals.append((f"result.{nm}", G.eq(a, b)))
        goals.append(("result-flavor", G.true(_is_momentum(got) == _is_momentum(ref), "flavor")))
        return goals
    if isinstance(got, tuple) or isinstance(ref, tuple):
        return [("result-kind", G.true(False, "tuple result"))]
    if name in BOOL_RESULT:
        return [("result", G.iff(got, ref))]
    if name in ANGLE_RESULT:
        return [("result", G.eq_angle(got, ref))]
    if name in LOG_RESULT:
        return [("result", G.eq_log(got, ref))]
    return [("result", G.eq(got, ref))]


def _is_momentum(v):
    from vector._methods import Momentum

    return isinstance(v, Momentum)


def assume_representable(R, lib, res_sigma, res_cart):
    """the exact result must be representable in the system the sigma-variant returns it in"""
    if not is_vector(res_sigma) or not is_vector(res_cart):
        return
    system, _ = lanes.stored(res_sigma)
    c = spec.cart(lib, res_cart)
    if system[0] == "rhophi":
        R.assume((c[0] != 0) | (c[1] != 0))
    if len(system) > 1 and system[1] in ("theta", "eta"):
        R.assume((c[0] != 0) | (c[1] != 0))
    if len(system) > 2 and system[2] == "tau" and len(c) == 4:
        R.assume(c[3] >= 0)
        if not SIGNED_TAU:
            R.assume(c[3] * c[3] - c[0] * c[0] - c[1] * c[1] - c[2] * c[2] >= 0)


def assume_representable_declared(R, lib, returns, res_cart, operands):
    """same as assume_representable, from the coordinate types the dispatch_map entry declares;
    asserted before the variant is executed so that sign case splits inside it can be decided"""
    if not is_vector(res_cart):
        return
    names = [CLS2NAME.get(r) for r in returns]
    c = spec.cart(lib, res_cart)
    # pass-through coordinates of lower-dimensional operations keep the operand's types
    if operands:
        system, _ = lanes.stored(operands[-1])
        full = [n for n in names if n]
        for extra in system[len(full):]:
            full.append(extra)
        names = full
    if "rhophi" in names or "theta" in names or "eta" in names:
        R.assume((c[0] != 0) | (c[1] != 0))
    if "tau" in names and len(c) == 4:
        R.assume(c[3] >= 0)
        if not SIGNED_TAU:
            R.assume(c[3] * c[3] - c[0] * c[0] - c[1] * c[1] - c[2] * c[2] >= 0)
