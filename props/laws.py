"""Helpers shared by the algebraic-law properties (C09, C10, C11)."""
from __future__ import annotations

from symx import lanes
from symx import run as G
from spec import model as spec

from . import common


def same_vector(R, got, ref, label="v", ref_is_cart=False):
    """goals: two vectors (or a vector and a Cartesian component list) denote the same geometric vector"""
    lib = R.lib
    if not ref_is_cart and common.is_vector(got) and common.is_vector(ref):
        sg, cg_ = lanes.stored(got)
        sr, cr_ = lanes.stored(ref)
        if len(sg) == 3 and len(sr) == 3 and sg[2] == "tau" and sr[2] == "tau":
            # both store proper time: same vector <=> same spatial part and same stored tau (no derived t needed)
            a3 = spec.decode(lib, sg[:2], cg_[:3])
            b3 = spec.decode(lib, sr[:2], cr_[:3])
            goals = [(f"{label}.{nm}", G.eq(x, y)) for nm, x, y in zip("xyz", a3, b3)]
            goals.append((f"{label}.tau", G.eq(cg_[3], cr_[3])))
            return goals
    cr = ref if ref_is_cart else spec.cart(lib, ref)
    if not common.is_vector(got):
        return [(f"{label}-kind", G.true(False, f"{type(got).__name__} is not a vector"))]
    system, coords = lanes.stored(got)
    if len(system) + 1 != len(cr):
        return [(f"{label}-dimension", G.true(False, f"{len(system) + 1} vs {len(cr)}"))]
    goals = []
    cg = spec.decode(lib, system, coords)
    for i, nm in enumerate("xyzt"[: len(cr)]):
        if nm == "t" and system[2] == "tau":
            m2 = cr[3] * cr[3] - cr[0] * cr[0] - cr[1] * cr[1] - cr[2] * cr[2]
            goals.append((f"{label}.tau2", G.eq(coords[3] * coords[3], m2)))
            goals.append((f"{label}.t>=0", G.ge(cr[3], 0)))
        else:
            goals.append((f"{label}.{nm}", G.eq(cg[i], cr[i])))
    return goals


def assume_result_representable(R, system, cr):
    """the exact result (Cartesian components cr) is representable in `system`"""
    if system[0] == "rhophi" or (len(system) > 1 and system[1] in ("theta", "eta")):
        R.assume((cr[0] != 0) | (cr[1] != 0))
    if len(system) > 2 and system[2] == "tau":
        R.assume(cr[3] >= 0)
        R.assume(cr[3] * cr[3] - cr[0] * cr[0] - cr[1] * cr[1] - cr[2] * cr[2] >= 0)


def nonzero(R, c):
    nz = c[0] != 0
    for x in c[1:3]:
        nz = nz | (x != 0)
    R.assume(nz)


def mdot(a, b):
    if len(a) == 4:
        return a[3] * b[3] - a[0] * b[0] - a[1] * b[1] - a[2] * b[2]
    s = a[0] * b[0]
    for x, y in zip(a[1:], b[1:]):
        s = s + x * y
    return s
