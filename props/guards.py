"""IEEE guard families (symx/guard.py) shared by C13 (ranges / never NaN) and C02 (no NaN where the definition is finite).

Symbolic run: the module's real dispatch() is executed on object-lane vectors whose lib is the IEEE order abstraction; z3
decides, for every rounding of every arithmetic operation, that each argument reaching sqrt / arccos / arcsin is in the
function's domain (and, where asked, that the result is in its documented range).
Replay: the same dispatch() on the float64 object backend with an instrumented numpy that records out-of-domain arguments
of sqrt / arccos / arcsin for finite operands; two-vector operations also get directed operands (a, -a, 3a, -a/7 stored in
the second operand's system by the library's own conversion), where rounding makes the clamps act.
"""
from __future__ import annotations

import importlib
import math

import numpy
import z3

from symx import guard, lanes
from symx import run as G
from symx.driver import Family

from . import common
from .common import PKG_DIM, SCALAR_KIND, VEC_PARAMS

GCLS = lanes.make_object_classes(guard.LIB, "Gd")


class ILib:
    """numpy, recording arguments of sqrt / arccos / arcsin that are finite and outside the domain"""

    def __init__(self):
        self.bad = []

    def __getattr__(self, name):
        return getattr(numpy, name)

    def __repr__(self):
        return "ILib(numpy)"

    def _chk(self, fn, x, ok):
        try:
            xf = float(x)
            if math.isfinite(xf) and not ok(xf):
                self.bad.append(f"{fn}({xf!r})")
        except Exception:
            pass

    def sqrt(self, x):
        self._chk("sqrt", x, lambda v: v >= 0)
        with numpy.errstate(all="ignore"):
            return numpy.sqrt(x)

    def arccos(self, x):
        self._chk("arccos", x, lambda v: -1 <= v <= 1)
        with numpy.errstate(all="ignore"):
            return numpy.arccos(x)

    def arcsin(self, x):
        self._chk("arcsin", x, lambda v: -1 <= v <= 1)
        with numpy.errstate(all="ignore"):
            return numpy.arcsin(x)


ILIB = ILib()
ICLS = lanes.make_object_classes(ILIB, "Gi")


def _conv_name(system):
    return "to_" + "".join(system)


def _in_range(x, lo, hi):
    try:
        xf = float(x)
    except Exception:
        return False
    return (not math.isnan(xf)) and lo <= xf <= hi


def supported(pkg, name, sig, zero=False):
    """dry run: does the abstraction cover every operation this variant uses?"""
    try:
        module = importlib.import_module(f"vector._compute.{pkg}.{name}")
        systems, extras = common.split_signature(sig)
        params = common.dispatch_params(module)
        args = []
        vi = 0
        k = 0
        guard.CTX[0] = guard.GCtx()
        guard.CTX[0].zero_over_zero = zero
        for p in params:
            if p in VEC_PARAMS:
                sysm = systems[vi]
                n = len(sysm) + 1
                if zero and vi == 0:
                    args.append(lanes.build(GCLS, sysm, [guard.GV(z3.RealVal(0)) for i in range(n)], False))
                else:
                    args.append(lanes.build(GCLS, sysm, [guard.GV(z3.Real(f"dry{k + i}")) for i in range(n)], False))
                k += n
                vi += 1
            elif p == "obj":
                names = "xyzt"[: PKG_DIM[pkg]]
                args.append({a + b: guard.GV(z3.Real(f"drym{a}{b}")) for a in names for b in names})
            elif p == "order":
                args.append(extras[0])
            elif p == "equal_nan":
                args.append(False)
            else:
                args.append(guard.GV(z3.Real(f"drys{p}")))
        module.dispatch(*args)
        return True
    except NotImplementedError:
        return False
    except AttributeError:
        return False
    except TypeError:
        return False


def f_guard(pkg, name, sig, want=None, zero=False):
    """want: None | 'angle' (result in [0, pi]) | 'nonneg' | 'nonneg-if-tau' | 'defined'
    zero: the first vector operand is the zero vector as the library writes it (every stored coordinate 0); 0/0 is NaN in
    the abstraction and the result must not contain a NaN"""
    module = importlib.import_module(f"vector._compute.{pkg}.{name}")
    systems, extras = common.split_signature(sig)
    params = common.dispatch_params(module)
    want_here = want
    if want == "nonneg-if-tau":
        want_here = "nonneg" if systems[0][-1] == "tau" else "defined"

    def build_args(R, conv, classes):
        args, vecs = [], []
        vi = 0
        for p in params:
            if p in VEC_PARAMS:
                sysm = systems[vi]
                if zero and vi == 0:
                    w = lanes.build(classes, sysm, [zero_value(R) for _ in range(len(sysm) + 1)], False)
                    args.append(w)
                    vecs.append((None, w))
                    vi += 1
                    continue
                v = R.vec(sysm, str(vi + 1), tau_nonneg=False)
                _, coords = lanes.stored(v)
                w = lanes.build(classes, sysm, [conv(c) for c in coords], False)
                args.append(w)
                vecs.append((v, w))
                vi += 1
            elif p == "obj":
                m = common.matrix(R, PKG_DIM[pkg])
                args.append({k: conv(x) for k, x in m.items()})
            elif p == "order":
                args.append(extras[0])
            elif p == "equal_nan":
                args.append(False)
            else:
                args.append(conv(R.real(p, SCALAR_KIND[p])))
        return args, vecs

    def zero_value(R):
        return guard.GV(z3.RealVal(0)) if R.mode == "sym" else 0.0

    def nan_free(val):
        """concrete result (scalar, vector, tuple): no NaN anywhere"""
        if common.is_vector(val):
            return all(not math.isnan(float(c)) for c in lanes.stored(val)[1])
        if isinstance(val, tuple):
            return all(nan_free(x) for x in val)
        try:
            return not math.isnan(float(val))
        except Exception:
            return True

    def fn(R):
        if R.mode == "sym":
            g = guard.GCtx()
            g.zero_over_zero = zero
            guard.CTX[0] = g
            args, vecs = build_args(R, lambda c: guard.GV(c.n), GCLS)
            inputs = [c for v_, w in vecs if v_ is not None for c in lanes.stored(w)[1]]
            try:
                res = module.dispatch(*args)
            except (NotImplementedError, AttributeError, TypeError) as e:
                # the variant uses an operation the abstraction does not model (arithmetic on infinities, isclose, ...): not claimed
                return [(f"outside the abstraction ({type(e).__name__}: {str(e)[:60]})", G.true(True))]
            hyp = z3.And(*(g.facts + g.assumptions)) if (g.facts or g.assumptions) else z3.BoolVal(True)
            goals = [(lab, G.Goal(z3.Implies(hyp, ob))) for lab, ob in g.obligations]
            # vacuity twin: the facts and assumptions of the abstraction must be satisfiable
            sv = z3.Solver()
            sv.set("timeout", 20000)
            sv.add(hyp)
            goals.append(("vacuity: facts and assumptions of the abstraction are satisfiable", G.true(str(sv.check()) == "sat")))
            if want_here and not isinstance(res, tuple) and not common.is_vector(res):
                res = guard.lift(res)
                PI = guard.lift(math.pi).v
                if any(res is x for x in inputs):
                    goals.append(("result is a stored coordinate", G.true(True)))
                elif want_here == "angle":
                    goals.append(("result in [0, pi], not NaN", G.Goal(z3.Implies(hyp, z3.And(z3.Not(res.nan), res.v >= 0, res.v <= PI)))))
                elif want_here == "nonneg":
                    goals.append(("result >= 0, not NaN", G.Goal(z3.Implies(hyp, z3.And(z3.Not(res.nan), res.v >= 0)))))
                else:
                    goals.append(("result not NaN", G.Goal(z3.Implies(hyp, z3.Not(res.nan)))))
            if zero:
                outs = [guard.lift(c) for c in lanes.stored(res)[1]] if common.is_vector(res) else ([] if isinstance(res, tuple) or isinstance(res, guard.GB) or isinstance(res, bool) else [guard.lift(res)])
                if outs:
                    goals.append(("zero operand: no NaN in the result", G.Goal(z3.Implies(hyp, z3.Not(z3.Or(*[o.nan for o in outs]))))))
            if not goals:
                goals.append(("no sqrt / arccos / arcsin reached", G.true(True)))
            return goals
        if R.mode != "f64":
            # the obligations are about float64 rounding: the 50-digit lane has nothing to say
            build_args(R, lambda c: c, R.classes)
            return [("float64 lane only", G.true(True))]
        args, vecs = build_args(R, float, ICLS)
        goals = []
        lo, hi = (0.0, math.pi) if want_here == "angle" else ((0.0, math.inf) if want_here == "nonneg" else (-math.inf, math.inf))

        def one(label, a):
            ILIB.bad = []
            with numpy.errstate(all="ignore"):
                val = module.dispatch(*a)
            goals.append((f"{label}: arguments of sqrt/arccos/arcsin in domain (float64)", G.CGoal(not ILIB.bad, "; ".join(ILIB.bad[:4]))))
            if zero:
                goals.append((f"{label}: zero operand: no NaN in the result (float64)", G.CGoal(nan_free(val), f"{val!r}"[:120])))
            if want_here and not isinstance(val, tuple) and not common.is_vector(val):
                goals.append((f"{label}: result in range, not NaN", G.CGoal(_in_range(val, lo, hi), f"{val!r}")))

        one(name, args)
        if len(vecs) == 2 and not zero:
            (a_real, a_i), (b_real, b_i) = vecs
            pos = [i for i, x in enumerate(args) if x is b_i][0]
            for lab, w in (("-a", -a_real), ("a", a_real), ("3a", a_real * 3), ("-a/7", a_real * (-1.0 / 7))):
                try:
                    w2 = getattr(w, _conv_name(systems[1]))()
                except Exception:
                    continue
                _, wc = lanes.stored(w2)
                if not all(math.isfinite(float(c)) for c in wc):
                    continue
                a2 = list(args)
                a2[pos] = lanes.build(ICLS, systems[1], [float(c) for c in wc], False)
                one(f"{name}(a, {lab} stored as {lanes.sysname(systems[1])})", a2)
        return goals

    return fn


NOTE = "IEEE order abstraction: every rounding of every arithmetic operation; outside: overflow, underflow of squares, zero denominators, operations on infinities"


def families(pid, modules, tier="quick", zero=False):
    """modules: dict name -> (pkg, want)"""
    fams, skipped = [], []
    for name, (pkg, want) in modules.items():
        module = importlib.import_module(f"vector._compute.{pkg}.{name}")
        for sig in module.dispatch_map:
            key = f"{pid}/ieee-guards{'-zero' if zero else ''}/{pkg}.{name}/{common.sig_name(sig)}"
            impl = module.dispatch_map[sig][0]
            f = Family(key, f_guard(pkg, name, sig, None if zero else want, zero), defd=False, functions=[f"vector._compute.{pkg}.{name}", f"{impl.__module__}.{impl.__qualname__}", "symx.guard (IEEE order abstraction)"], frame=False, note=NOTE)
            f.replay_mode = "f64"
            fams.append(f)
    return fams, skipped
