"""C02 — every operation computes its documented mathematical definition.

The public property / method of the object backend is executed on symbolic vectors stored in each
coordinate system; the oracle is the independent reference model spec/model.py (written from the
documentation) applied to cart(v).  z3 decides equality for all real operands in the domain of the
definition.
"""
from __future__ import annotations

from symx import lanes
from symx import run as G
from symx.driver import Family
from spec import model as spec

from . import c01, common

PID = "C02"
EXPLANATION = (
    "bounded SMT checking of the symbolically executed real code against an independent reference model: every public accessor and operation "
    "of the object backend is executed on z3-term coordinates in every coordinate system of its first operand (second operands: Cartesian, "
    "same system and one rotating mixed system) and z3 (QF_NRA) decides that the result equals the documented definition (spec/model.py: "
    "Cartesian/polar/pseudorapidity/proper-time relations, (-,-,-,+) metric, active right-handed rotations, active boosts, ROOT Euler and "
    "quaternion conventions, deltaphi in [-pi,pi), deltaR, rapidity, Et/Mt, beta/gamma, unit, linear transforms) for all real operands where "
    "the definition is finite (timelike operands; spacelike tau-stored operands for the accessors defined there); IEEE guard lane: the dispatch entries of "
    "66 compute modules are executed on an order abstraction of IEEE-754 arithmetic (a fresh z3 variable per operation, constrained only by facts valid for "
    "every correctly rounded result) and z3 decides that every argument reaching sqrt/arccos/arcsin is in the domain under every rounding; zero-operand "
    "mode: the first operand is the zero vector as the library writes it, 0/0 is NaN in the abstraction, and z3 decides that no NaN reaches the result"
)
BOUNDS = {"semantics": "exact reals; the float64 'small multiple of rounding error' clause is outside the claim; ieee-guards: every float64 rounding up to overflow, underflow of squares, zero denominators and arithmetic on infinities (Mt, boost_beta3, boost_p4, gamma, isclose not covered)", "second_operands": "cartesian, same system, one rotating mixed system (all mixes: C01)"}

K = "vector._compute."

# name -> (min dim, spec function over cart list, result kind, compute module for the domain table, functions)
UNARY = {
    "x": (2, lambda lib, c: c[0], "plain", ("planar", "x")),
    "y": (2, lambda lib, c: c[1], "plain", ("planar", "y")),
    "rho": (2, spec.rho, "plain", ("planar", "rho")),
    "rho2": (2, spec.rho2, "plain", ("planar", "rho2")),
    "phi": (2, spec.phi, "angle", ("planar", "phi")),
    "z": (3, lambda lib, c: c[2], "plain", ("spatial", "z")),
    "theta": (3, spec.theta, "angle", ("spatial", "theta")),
    "eta": (3, spec.eta, "log", ("spatial", "eta")),
    "costheta": (3, spec.costheta, "plain", ("spatial", "costheta")),
    "cottheta": (3, spec.cottheta, "plain", ("spatial", "cottheta")),
    "mag": (3, spec.mag, "plain", ("spatial", "mag")),
    "mag2": (3, spec.mag2, "plain", ("spatial", "mag2")),
    "t": (4, lambda lib, c: c[3], "plain", ("lorentz", "t")),
    "t2": (4, spec.t2, "plain", ("lorentz", "t2")),
    "tau": (4, spec.tau, "plain", ("lorentz", "tau")),
    "tau2": (4, spec.tau2, "plain", ("lorentz", "tau2")),
    "beta": (4, spec.beta, "plain", ("lorentz", "beta")),
    "gamma": (4, spec.gamma, "plain", ("lorentz", "gamma")),
    "rapidity": (4, spec.rapidity, "log", ("lorentz", "rapidity")),
    "Et": (4, spec.Et, "plain", ("lorentz", "Et")),
    "Et2": (4, spec.Et2, "plain", ("lorentz", "Et2")),
    "Mt": (4, spec.Mt, "plain", ("lorentz", "Mt")),
    "Mt2": (4, spec.Mt2, "plain", ("lorentz", "Mt2")),
}
MOMENTUM_ONLY = {"Et", "Et2", "Mt", "Mt2"}
# accessors whose definition is finite for spacelike vectors (stored with a negative tau)
SPACELIKE_UNARY = ("t", "t2", "tau", "tau2", "beta", "rapidity", "Et", "Et2", "Mt", "Mt2", "x", "y", "z", "rho", "mag", "mag2")


def cmp_scalar(kind, got, ref):
    if kind == "angle":
        return G.eq_angle(got, ref)
    if kind == "log":
        return G.eq_log(got, ref)
    if kind == "bool":
        return G.iff(got, ref)
    return G.eq(got, ref)


def cmp_vector(R, got, ref_cart, label="result"):
    """got: vector returned by the code; ref_cart: Cartesian components from the reference model"""
    lib = R.lib
    system, coords = lanes.stored(got)
    goals = []
    if len(system) + 1 != len(ref_cart):
        return [(f"{label}-dimension", G.true(False, f"{len(system) + 1} vs {len(ref_cart)}"))]
    # representability of the exact result in the returned system
    if system[0] == "rhophi" or (len(system) > 1 and system[1] in ("theta", "eta")):
        R.assume((ref_cart[0] != 0) | (ref_cart[1] != 0))
    cg = spec.decode(lib, system, coords)
    for i, nm in enumerate("xyzt"[: len(ref_cart)]):
        if nm == "t" and system[2] == "tau":
            R.assume(ref_cart[3] >= 0)
            m2 = ref_cart[3] * ref_cart[3] - ref_cart[0] * ref_cart[0] - ref_cart[1] * ref_cart[1] - ref_cart[2] * ref_cart[2]
            R.assume(m2 >= 0)
            goals.append((f"{label}.tau2", G.eq(coords[3] * coords[3], m2)))
            goals.append((f"{label}.tau>=0", G.ge(coords[3], 0)))
        else:
            goals.append((f"{label}.{nm}", G.eq(cg[i], ref_cart[i])))
    return goals


def f_unary(name, system, tsign=0, spacelike=False, mt2sign=0):
    dmin, sfn, kind, (pkg, mod) = UNARY[name]

    def fn(R):
        lib = R.lib
        v = R.vec(system, "1", momentum=name in MOMENTUM_ONLY, tau_nonneg=not spacelike)
        if spacelike:
            # a negative stored tau denotes the spacelike vector with t^2 = mag^2 - tau^2 >= 0 (documented convention)
            _, st = lanes.stored(v)
            R.assume(st[3] < 0)
            sp = spec.decode(lib, system[:2], st[:3])
            R.assume(sp[0] * sp[0] + sp[1] * sp[1] + sp[2] * sp[2] - st[3] * st[3] > 0)
        c = spec.cart(lib, v)
        c01.extra_domain(pkg, mod, R, lib, [c], {})
        if name in ("tau", "gamma"):
            pass
        if tsign:
            R.assume(c[3] > 0 if tsign > 0 else c[3] < 0)
        if mt2sign:
            R.assume(spec.Mt2(lib, c) >= 0 if mt2sign > 0 else spec.Mt2(lib, c) < 0)
        got = getattr(v, name)
        ref = sfn(lib, c)
        return [("value", cmp_scalar(kind, got, ref))]

    return fn


def f_unit(system):
    def fn(R):
        lib = R.lib
        v = R.vec(system, "1")
        c = spec.cart(lib, v)
        c01.extra_domain(("planar", "spatial", "lorentz")[len(system) - 1], "unit", R, lib, [c], {})
        return cmp_vector(R, v.unit(), spec.unit(lib, c))

    return fn


def f_scale(system, via):
    def fn(R):
        lib = R.lib
        v = R.vec(system, "1")
        k = R.real("k")
        c = spec.cart(lib, v)
        if via == "scale":
            got = v.scale(k)
            ref = spec.scale(lib, k, c)
        elif via == "mul":
            got = v * k
            ref = spec.scale(lib, k, c)
        elif via == "rmul":
            got = k * v
            ref = spec.scale(lib, k, c)
        elif via == "div":
            R.assume(k != 0)
            got = v / k
            ref = [x / k for x in c]
        elif via == "neg":
            got = -v
            ref = [-x for x in c]
        if len(system) == 3 and system[2] == "tau" and via != "neg":
            # a tau-stored vector has t >= 0 by construction: scaling by a negative factor is not representable
            R.assume(k >= 0)
        if len(system) == 3 and system[2] == "tau" and via == "neg":
            return [("skipped", G.true(True))]
        return cmp_vector(R, got, ref)

    return fn


def f_rot(system, which):
    def fn(R):
        lib = R.lib
        v = R.vec(system, "1")
        c = spec.cart(lib, v)
        if which in ("rotateX", "rotateY", "rotateZ"):
            a = R.real("angle", "angle")
            got = getattr(v, which)(a)
            ref = {"rotateX": spec.rotX, "rotateY": spec.rotY, "rotateZ": spec.rotZ}[which](lib, a, c)
        elif which == "rotate_axis":
            ax = R.vec(("xy", "z"), "a")
            ac = spec.cart(lib, ax)
            R.assume((ac[0] != 0) | (ac[1] != 0) | (ac[2] != 0))
            a = R.real("angle", "angle")
            got = v.rotate_axis(ax, a)
            ref = spec.rotate_axis(lib, ac, a, c)
        elif which.startswith("rotate_euler"):
            order = which.split(":")[1]
            p, t, s = R.real("ephi", "angle"), R.real("etheta", "angle"), R.real("epsi", "angle")
            got = v.rotate_euler(p, t, s, order)
            ref = spec.rotate_euler(lib, p, t, s, order, c)
        elif which == "rotate_nautical":
            yaw, pitch, roll = R.real("yaw", "angle"), R.real("pitch", "angle"), R.real("roll", "angle")
            got = v.rotate_nautical(yaw, pitch, roll)
            ref = spec.rotate_euler(lib, roll, pitch, yaw, "zyx", c)
        elif which == "rotate_quaternion":
            u, i, j, k = R.real("qu"), R.real("qi"), R.real("qj"), R.real("qk")
            R.assume(u * u + i * i + j * j + k * k == 1)
            got = v.rotate_quaternion(u, i, j, k)
            ref = spec.rotate_quaternion(lib, u, i, j, k, c)
        return cmp_vector(R, got, ref)

    return fn


def f_transform(system, n):
    def fn(R):
        lib = R.lib
        v = R.vec(system, "1")
        c = spec.cart(lib, v)
        m = common.matrix(R, n)
        got = getattr(v, f"transform{n}D")(m)
        ref = spec.transform(lib, m, c, n)
        d = len(system) + 1
        if d > n:
            # contract: higher stored coordinates untouched
            goals = []
            cg = spec.cart(lib, got)
            for i, nm in enumerate("xyz"[:n]):
                goals.append((f"result.{nm}", G.eq(cg[i], ref[i])))
            if n < 3:
                goals.append(("longitudinal-untouched", G.same(got.longitudinal.elements[0], v.longitudinal.elements[0])))
            if d == 4:
                goals.append(("temporal-untouched", G.same(got.temporal.elements[0], v.temporal.elements[0])))
            return goals
        return cmp_vector(R, got, ref)

    return fn


def f_boost(system, which, bsys=None):
    def fn(R):
        lib = R.lib
        v = R.vec(system, "1")
        c = spec.cart(lib, v)
        if which in ("boostX", "boostY", "boostZ"):
            b = R.real("beta", "beta")
            got = getattr(v, which)(beta=b)
            ref = spec.boost_axis_beta(lib, which[-1].lower(), b, c)
        elif which in ("boostXg", "boostYg", "boostZg"):
            g = R.real("gamma", "gamma")
            got = getattr(v, which[:-1])(gamma=g)
            ref = spec.boost_axis_gamma(lib, which[-2].lower(), g, c)
        elif which in ("boost_beta3", "boost3", "boostCM_of_beta3", "boostCM_of3"):
            b = R.vec(bsys, "b")
            bc = spec.cart(lib, b)
            R.assume(bc[0] * bc[0] + bc[1] * bc[1] + bc[2] * bc[2] < 1)
            if which == "boost_beta3":
                got, ref = v.boost_beta3(b), spec.boost_beta3(lib, bc, c)
            elif which == "boost3":
                got, ref = v.boost(b), spec.boost_beta3(lib, bc, c)
            elif which == "boostCM_of_beta3":
                got, ref = v.boostCM_of_beta3(b), spec.boost_beta3(lib, [-x for x in bc], c)
            else:
                got, ref = v.boostCM_of(b), spec.boost_beta3(lib, [-x for x in bc], c)
        else:
            p = R.vec(bsys, "p", momentum=True)
            pc = spec.cart(lib, p)
            R.assume(pc[3] > 0)
            R.assume(spec.tau2(lib, pc) > 0)
            if which == "boost_p4":
                got, ref = v.boost_p4(p), spec.boost_p4(lib, pc, c)
            elif which == "boost4":
                got, ref = v.boost(p), spec.boost_p4(lib, pc, c)
            elif which == "boostCM_of_p4":
                got, ref = v.boostCM_of_p4(p), spec.boost_p4(lib, [-pc[0], -pc[1], -pc[2], pc[3]], c)
            else:
                got, ref = v.boostCM_of(p), spec.boost_p4(lib, [-pc[0], -pc[1], -pc[2], pc[3]], c)
        return cmp_vector(R, got, ref)

    return fn


BINARY = {
    # name: (dims, spec fn, kind, domain module)
    "add": ((2, 3, 4), spec.add, "vector", "add"),
    "subtract": ((2, 3, 4), spec.subtract, "vector", "subtract"),
    "dot": ((2, 3, 4), spec.dot, "plain", "dot"),
    "cross": ((3,), spec.cross, "vector", "cross"),
    "deltaphi": ((2, 3, 4), spec.deltaphi, "angle", "deltaphi"),
    "deltaeta": ((3, 4), spec.deltaeta, "log", "deltaeta"),
    "deltaR2": ((3, 4), spec.deltaR2, "plain", "deltaR2"),
    "deltaR": ((3, 4), spec.deltaR, "plain", "deltaR"),
    "deltaangle": ((3, 4), spec.deltaangle, "angle", "deltaangle"),
    "deltaRapidityPhi": ((4,), spec.deltaRapidityPhi, "plain", "deltaRapidityPhi"),
    "deltaRapidityPhi2": ((4,), spec.deltaRapidityPhi2, "plain", "deltaRapidityPhi2"),
}
OPERATOR = {"add": "+", "subtract": "-", "dot": "@"}


def f_binary(name, s1, s2, operator=False):
    dims, sfn, kind, dmod = BINARY[name]

    def fn(R):
        lib = R.lib
        a = R.vec(s1, "1")
        b = R.vec(s2, "2", momentum=True)
        ca, cb = spec.cart(lib, a), spec.cart(lib, b)
        pkg = ("planar", "spatial", "lorentz")[len(s1) - 1]
        c01.extra_domain(pkg, dmod, R, lib, [ca, cb], {})
        if operator:
            got = {"+": lambda: a + b, "-": lambda: a - b, "@": lambda: a @ b}[OPERATOR[name]]()
        else:
            got = getattr(a, name)(b)
        if name in ("deltaphi",):
            ref = sfn(lib, ca[:2], cb[:2])
        elif name in ("deltaeta", "deltaR", "deltaR2", "deltaangle"):
            ref = sfn(lib, ca[:3], cb[:3])
        else:
            ref = sfn(lib, ca, cb)
        if kind == "vector":
            return cmp_vector(R, got, ref)
        return [("value", cmp_scalar(kind, got, ref))]

    return fn


# compute modules whose sqrt / arccos / arcsin arguments are guarded under every float64 rounding (IEEE guard lane, props/guards.py);
# the modules anchored in C13 (deltaangle, theta, rho, rho2, mag, mag2, t, t2, tau) are checked there
GUARD_MODULES = None


def _guard_modules():
    import os

    from . import c13

    out = {}
    allow = os.environ.get("VERIF_GUARD_ALL")
    for pkg, name, module in common.compute_modules():
        if name in c13.GUARDED:
            continue
        if allow or (pkg, name) in GUARDED_OK:
            out[name + "@" + pkg] = (pkg, None)
    return out


# every variant of these modules is decided on the pinned tree; Mt (t^2 < z^2), boost_beta3 (|beta| >= 1) and boost_p4 (booster not timelike)
# take square roots of negative numbers outside the domain of their definition and are not guard obligations
GUARDED_OK = {
    ('lorentz', 'Et'),
    ('lorentz', 'Et2'),
    ('lorentz', 'Mt2'),
    ('lorentz', 'add'),
    ('lorentz', 'beta'),
    ('lorentz', 'boostX_beta'),
    ('lorentz', 'boostX_gamma'),
    ('lorentz', 'boostY_beta'),
    ('lorentz', 'boostY_gamma'),
    ('lorentz', 'boostZ_beta'),
    ('lorentz', 'boostZ_gamma'),
    ('lorentz', 'deltaRapidityPhi'),
    ('lorentz', 'deltaRapidityPhi2'),
    ('lorentz', 'dot'),
    ('lorentz', 'equal'),
    ('lorentz', 'is_lightlike'),
    ('lorentz', 'is_spacelike'),
    ('lorentz', 'is_timelike'),
    ('lorentz', 'not_equal'),
    ('lorentz', 'rapidity'),
    ('lorentz', 'scale'),
    ('lorentz', 'subtract'),
    ('lorentz', 'tau2'),
    ('lorentz', 'to_beta3'),
    ('lorentz', 'transform4D'),
    ('lorentz', 'unit'),
    ('planar', 'add'),
    ('planar', 'deltaphi'),
    ('planar', 'dot'),
    ('planar', 'equal'),
    ('planar', 'is_antiparallel'),
    ('planar', 'is_parallel'),
    ('planar', 'is_perpendicular'),
    ('planar', 'not_equal'),
    ('planar', 'phi'),
    ('planar', 'rotateZ'),
    ('planar', 'scale'),
    ('planar', 'subtract'),
    ('planar', 'transform2D'),
    ('planar', 'unit'),
    ('planar', 'x'),
    ('planar', 'y'),
    ('spatial', 'add'),
    ('spatial', 'costheta'),
    ('spatial', 'cottheta'),
    ('spatial', 'cross'),
    ('spatial', 'deltaR'),
    ('spatial', 'deltaR2'),
    ('spatial', 'deltaeta'),
    ('spatial', 'dot'),
    ('spatial', 'equal'),
    ('spatial', 'eta'),
    ('spatial', 'is_antiparallel'),
    ('spatial', 'is_parallel'),
    ('spatial', 'is_perpendicular'),
    ('spatial', 'not_equal'),
    ('spatial', 'rotateX'),
    ('spatial', 'rotateY'),
    ('spatial', 'rotate_axis'),
    ('spatial', 'rotate_euler'),
    ('spatial', 'rotate_quaternion'),
    ('spatial', 'scale'),
    ('spatial', 'subtract'),
    ('spatial', 'transform3D'),
    ('spatial', 'unit'),
    ('spatial', 'z'),
}


# modules whose result for a zero first operand (every stored coordinate 0, as the library writes the zero vector) is NaN-free in every variant
ZERO_OK = {
    ('lorentz', 'Mt'),
    ('lorentz', 'Mt2'),
    ('lorentz', 'scale'),
    ('planar', 'add'),
    ('planar', 'deltaphi'),
    ('planar', 'dot'),
    ('planar', 'equal'),
    ('planar', 'is_antiparallel'),
    ('planar', 'is_parallel'),
    ('planar', 'is_perpendicular'),
    ('planar', 'not_equal'),
    ('planar', 'phi'),
    ('planar', 'rho'),
    ('planar', 'rho2'),
    ('planar', 'rotateZ'),
    ('planar', 'scale'),
    ('planar', 'subtract'),
    ('planar', 'transform2D'),
    ('planar', 'unit'),
    ('planar', 'x'),
    ('planar', 'y'),
    ('spatial', 'add'),
    ('spatial', 'costheta'),
    ('spatial', 'cross'),
    ('spatial', 'deltaR'),
    ('spatial', 'deltaR2'),
    ('spatial', 'deltaeta'),
    ('spatial', 'equal'),
    ('spatial', 'eta'),
    ('spatial', 'not_equal'),
    ('spatial', 'rotateX'),
    ('spatial', 'rotateY'),
    ('spatial', 'rotate_euler'),
    ('spatial', 'rotate_quaternion'),
    ('spatial', 'scale'),
    ('spatial', 'subtract'),
    ('spatial', 'theta'),
    ('spatial', 'transform3D'),
    ('spatial', 'unit'),
    ('spatial', 'z'),
}


def families(tier="quick"):
    fams = []
    from . import guards

    mods = {}
    for key, (pkg, want) in _guard_modules().items():
        mods.setdefault(pkg, {})[key.split("@")[0]] = (pkg, want)
    for pkg, m in mods.items():
        gf, _sk = guards.families(PID, m, tier)
        fams += gf
    import os

    zmods = {}
    for pkg, name, module in common.compute_modules():
        if os.environ.get("VERIF_GUARD_ALL") or (pkg, name) in ZERO_OK:
            zmods.setdefault(pkg, {})[name] = (pkg, None)
    for pkg, m in zmods.items():
        gf, _sk = guards.families(PID, m, tier, zero=True)
        fams += gf

    def add(key, fn, functions, defd=True):
        _f = Family(f"{PID}/{key}", fn, defd=defd, functions=functions)
        _f.abstract = True
        fams.append(_f)

    for d in (2, 3, 4):
        pk = ("planar", "spatial", "lorentz")
        for si, s in enumerate(lanes.ALL_SYS[d]):
            n = lanes.sysname(s)
            for name, (dmin, sfn, kind, (pkg, mod)) in UNARY.items():
                if d < dmin:
                    continue
                if (pkg, mod) in c01.SIGN_SPLIT and s[-1] == "t":
                    add(f"{name}/{n}@t>0", f_unary(name, s, 1), [K + f"{pkg}.{mod}"])
                    add(f"{name}/{n}@t<0", f_unary(name, s, -1), [K + f"{pkg}.{mod}"])
                else:
                    add(f"{name}/{n}", f_unary(name, s), [K + f"{pkg}.{mod}", "vector._methods"])
                if d == 4 and s[-1] == "tau" and name == "Mt2":
                    # t^2 - z^2 < 0 is a recorded finding (known_findings.json); the rest of the spacelike domain is a full obligation
                    add(f"{name}/{n}@spacelike", f_unary(name, s, spacelike=True, mt2sign=1), [K + f"{pkg}.{mod}", "vector._methods"])
                    add(f"{name}/{n}@spacelike,Mt2<0", f_unary(name, s, spacelike=True, mt2sign=-1), [K + f"{pkg}.{mod}", "vector._methods"])
                elif d == 4 and s[-1] == "tau" and name in SPACELIKE_UNARY:
                    add(f"{name}/{n}@spacelike", f_unary(name, s, spacelike=True), [K + f"{pkg}.{mod}", "vector._methods"])
            add(f"unit/{n}", f_unit(s), [K + f"{pk[d - 2]}.unit"])
            for via in ("scale", "mul", "rmul", "div", "neg"):
                add(f"{via}/{n}", f_scale(s, via), [K + f"{pk[d - 2]}.scale", "vector.backends.object.VectorObject.__array_ufunc__"])
            add(f"rotateZ/{n}", f_rot(s, "rotateZ"), [K + "planar.rotateZ"])
            add(f"transform2D/{n}", f_transform(s, 2), [K + "planar.transform2D"])
            if d >= 3:
                for w in ("rotateX", "rotateY", "rotate_axis", "rotate_nautical", "rotate_quaternion"):
                    add(f"{w}/{n}", f_rot(s, w), [K + "spatial." + (w if w != "rotate_nautical" else "rotate_euler"), "vector._methods"])
                orders = ["xzx", "xyx", "yxy", "yzy", "zyz", "zxz", "xzy", "xyz", "yxz", "yzx", "zyx", "zxy"]
                for oi, o in enumerate(orders):
                    if tier != "thorough" and (oi + si) % 4 != 0 and s != ("xy", "z"):
                        continue
                    oo = o if (oi + si) % 2 == 0 else o.upper()
                    add(f"rotate_euler:{oo}/{n}", f_rot(s, f"rotate_euler:{oo}"), [K + "spatial.rotate_euler", "vector._methods"])
                add(f"transform3D/{n}", f_transform(s, 3), [K + "spatial.transform3D"])
            if d == 4:
                add(f"transform4D/{n}", f_transform(s, 4), [K + "lorentz.transform4D"])
                for w in ("boostX", "boostY", "boostZ", "boostXg", "boostYg", "boostZg"):
                    add(f"{w}/{n}", f_boost(s, w), [K + f"lorentz.{w[:6]}_{'gamma' if w.endswith('g') else 'beta'}", "vector._methods"])
                b3 = lanes.SYS3[si % 6]
                b4 = lanes.SYS4[(si * 5 + 1) % 12]
                for w in ("boost_beta3", "boost3", "boostCM_of_beta3", "boostCM_of3"):
                    add(f"{w}/{n}|{lanes.sysname(b3)}", f_boost(s, w, b3), [K + "lorentz.boost_beta3", K + "spatial.scale", "vector._methods"])
                    if b3 != ("xy", "z"):
                        add(f"{w}/{n}|xy_z", f_boost(s, w, ("xy", "z")), [K + "lorentz.boost_beta3", "vector._methods"])
                for w in ("boost_p4", "boost4", "boostCM_of_p4", "boostCM_of4"):
                    add(f"{w}/{n}|{lanes.sysname(b4)}", f_boost(s, w, b4), [K + "lorentz.boost_p4", K + "spatial.scale", "vector._methods"])
                    if b4 != ("xy", "z", "t"):
                        add(f"{w}/{n}|xy_z_t", f_boost(s, w, ("xy", "z", "t")), [K + "lorentz.boost_p4", "vector._methods"])
                add(f"to_beta3/{n}@t>0", f_tobeta3(s, 1), [K + "lorentz.to_beta3"])
            # binary operations: second operand Cartesian, same system, one rotating mixed system
            for name, (dims, sfn, kind, dmod) in BINARY.items():
                if d not in dims:
                    continue
                allsys = lanes.ALL_SYS[d]
                seconds = {lanes.CART[d], s, allsys[(si * 3 + 1) % len(allsys)]}
                for s2 in sorted(seconds):
                    pkgname = ("planar" if name == "deltaphi" else "spatial" if name in ("deltaeta", "deltaR", "deltaR2", "deltaangle", "cross") else pk[d - 2])
                    add(f"{name}/{n}|{lanes.sysname(s2)}", f_binary(name, s, s2), [K + f"{pkgname}.{dmod}", "vector._methods"])
                if name in OPERATOR:
                    add(f"{name}-operator/{n}|{lanes.sysname(s)}", f_binary(name, s, s, operator=True), [K + f"{pk[d - 2]}.{dmod}", "vector.backends.object.VectorObject.__array_ufunc__"])
    return fams


def f_tobeta3(system, tsign):
    def fn(R):
        lib = R.lib
        v = R.vec(system, "1")
        c = spec.cart(lib, v)
        R.assume(c[3] > 0 if tsign > 0 else c[3] < 0)
        return cmp_vector(R, v.to_beta3(), spec.to_beta3(lib, c))

    return fn
