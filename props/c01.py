"""C01 — results do not depend on the coordinate system operands are stored in.

For every compute module and every key sigma of its dispatch_map (read from /repo at run time)
the module's real `dispatch` entry point is executed on object-lane vectors stored in sigma and on
vectors stored in the all-Cartesian system holding cart(store_sigma(v)); the solver decides
decode(result_sigma) == decode(result_cart) for all real operands of the representable domain.
"""
from __future__ import annotations

from symx import lanes
from symx import run as G
from symx.driver import Family
from spec import model as spec

from . import common
from .common import PKG_DIM, SCALAR_KIND, VEC_PARAMS

PID = "C01"
EXPLANATION = (
    "bounded SMT checking of the symbolically executed real code: for every dispatch_map entry of every compute module (read from /repo at run time) the "
    "module's dispatch entry is executed on object-backend vectors whose coordinates are z3 terms, once stored in the entry's coordinate systems and once "
    "in Cartesian coordinates holding the same geometric vector; z3 (QF_NRA) decides that both results denote the same value for all real operands of the "
    "representable domain (including spacelike vectors stored with a negative tau for the unary Lorentz modules and for lower-dimensional vector "
    "operations on tau-stored 4D operands) and that every sub-expression is defined there"
)
BOUNDS = {"semantics": "exact reals", "domain": "rho>0, -pi<phi<=pi, 0<theta<pi, off-axis for theta/eta, t>=0 for tau storage (tau of either sign where a family says @spacelike), exact result representable in the returned system", "outside": "isclose (system-dependent by definition, C12); float64 rounding"}

# operations whose documented contract is to leave higher stored coordinates untouched
PASS_THROUGH_EXCEPTIONS = {("planar", "scale"), ("planar", "transform2D"), ("spatial", "scale"), ("spatial", "transform3D")}


def extra_domain(pkg, name, R, lib, carts, scal):
    """operation-specific part of 'the definition is finite / the result is representable'"""
    c = carts
    if name == "unit":
        if pkg == "planar":
            R.assume((c[0][0] != 0) | (c[0][1] != 0))
        elif pkg == "spatial":
            R.assume((c[0][0] != 0) | (c[0][1] != 0) | (c[0][2] != 0))
        else:
            R.assume(spec.tau2(lib, c[0]) != 0)
    if name in ("beta", "to_beta3"):
        R.assume(c[0][3] != 0)
    if name == "gamma":
        R.assume(spec.tau2(lib, c[0]) != 0)
    if name == "rapidity":
        R.assume(c[0][3] > c[0][2])
        R.assume(c[0][3] > -c[0][2])
    if name in ("deltaRapidityPhi", "deltaRapidityPhi2"):
        for v in c:
            R.assume(v[3] > v[2])
            R.assume(v[3] > -v[2])
            R.assume((v[0] != 0) | (v[1] != 0))
    if name == "Mt":
        R.assume(spec.Mt2(lib, c[0]) >= 0)
    if name in ("Et", "Et2"):
        R.assume((c[0][0] != 0) | (c[0][1] != 0) | (c[0][2] != 0))
    if name in ("eta", "theta", "costheta", "cottheta"):
        R.assume((c[0][0] != 0) | (c[0][1] != 0))
    if name in ("phi",):
        R.assume((c[0][0] != 0) | (c[0][1] != 0))
    if name in ("deltaphi",):
        for v in c:
            R.assume((v[0] != 0) | (v[1] != 0))
    if name in ("deltaeta", "deltaR", "deltaR2"):
        for v in c:
            R.assume((v[0] != 0) | (v[1] != 0))
    if name in ("deltaangle", "is_parallel", "is_antiparallel", "is_perpendicular"):
        for v in c:
            if len(v) == 2:
                R.assume((v[0] != 0) | (v[1] != 0))
            else:
                R.assume((v[0] != 0) | (v[1] != 0) | (v[2] != 0))
    if name == "rotate_axis":
        a = c[0]
        R.assume((a[0] != 0) | (a[1] != 0) | (a[2] != 0))
    if name == "boost_p4":
        p = c[1]
        R.assume(p[3] > 0)
        R.assume(spec.tau2(lib, p) > 0)
    if name == "boost_beta3":
        b = c[1]
        R.assume(b[0] * b[0] + b[1] * b[1] + b[2] * b[2] < 1)
    if name == "rotate_quaternion":
        R.assume(scal["u"] ** 2 + scal["i"] ** 2 + scal["j"] ** 2 + scal["k"] ** 2 == 1)


def cart_abstract(R, lib, v, sysm, tag, signed=False):
    """Cartesian components of v as abstraction symbols linked to their defining expressions: the
    Cartesian run then works on atoms (its own identities stay small), the links are used lazily"""
    _, coords = lanes.stored(v)
    if sysm == lanes.CART[len(sysm) + 1]:
        return list(coords)
    spatial = spec.decode(lib, sysm[:2] if len(sysm) > 2 else sysm, coords[:3] if len(sysm) > 2 else coords)
    names = "xyz"
    out = []
    for i, e in enumerate(spatial):
        if (i < 2 and sysm[0] == "xy") or (i == 2 and sysm[1] == "z"):
            out.append(coords[i])
        else:
            out.append(R.abstract(f"c{names[i]}{tag}", e))
    if len(sysm) == 3:
        if sysm[2] == "t":
            out.append(coords[3])
        else:
            tau = coords[3]
            t2 = (lib.copysign(tau * tau, tau) if signed else tau * tau) + out[0] * out[0] + out[1] * out[1] + out[2] * out[2]
            out.append(R.abstract(f"ct{tag}", t2, nonneg_root=True))
    return out


def _coord_names(system):
    out = list(lanes.AZ_NAMES[system[0]])
    return out + list(system[1:])


# operations whose value for a negative time component is a recorded finding (known_findings.json):
# the obligation is split by the sign of t so that t > 0 stays a full obligation
SIGN_SPLIT = {("lorentz", "Et"), ("lorentz", "to_beta3")}


# unary Lorentz operations whose definition is finite for spacelike vectors (stored with a negative tau)
SPACELIKE_UNARY = ("t", "t2", "tau", "tau2", "beta", "rapidity", "Et", "Et2", "Mt", "Mt2", "to_beta3", "is_timelike", "is_spacelike", "is_lightlike", "scale", "unit", "boostX_beta", "boostY_beta", "boostZ_beta", "boostX_gamma", "boostY_gamma", "boostZ_gamma")


def make_fn(pkg, name, module, sig, upper=None, momentum=(False, False), tsign=0, abstract=True, spacelike=False, mt2sign=0):
    """obligation for one dispatch_map entry.  upper: extra stored coordinates appended to every
    vector operand (exercises _wrap_result pass-through of a lower-dimensional operation)."""
    params = common.dispatch_params(module)
    systems, extras = common.split_signature(sig)

    def fn(R):
        common.SIGNED_TAU = bool(spacelike)
        try:
            return fn_(R)
        finally:
            common.SIGNED_TAU = False

    def fn_(R):
        lib = R.lib
        args_s, args_c, carts, scal = [], [], [], {}
        vi = 0
        sig_vecs, cart_vecs = [], []
        for p in params:
            if p in VEC_PARAMS:
                sysm = systems[vi]
                if upper:
                    sysm = sysm + tuple(upper[vi])
                mom = momentum[vi] if vi < len(momentum) else False
                sl = spacelike and vi == 0 and sysm[-1] == "tau"
                v = R.vec(sysm, str(vi + 1), momentum=mom, tau_nonneg=not sl)
                if sl:
                    # negative stored tau: the spacelike vector with t^2 = mag^2 - tau^2 > 0 (documented convention)
                    _, st = lanes.stored(v)
                    sp = spec.decode(lib, sysm[:2], st[:3])
                    R.assume(st[3] < 0)
                    R.assume(sp[0] * sp[0] + sp[1] * sp[1] + sp[2] * sp[2] - st[3] * st[3] > 0)
                c = cart_abstract(R, lib, v, sysm, str(vi + 1), signed=sl) if (abstract and R.mode == "sym") else spec.cart(lib, v)
                vc = R.build(lanes.CART[len(sysm) + 1], c, momentum=mom)
                args_s.append(v)
                args_c.append(vc)
                carts.append(c)
                sig_vecs.append(v)
                cart_vecs.append(vc)
                vi += 1
            elif p == "obj":
                m = common.matrix(R, PKG_DIM[pkg])
                args_s.append(m)
                args_c.append(m)
            elif p == "order":
                args_s.append(extras[0])
                args_c.append(extras[0])
            elif p == "equal_nan":
                args_s.append(False)
                args_c.append(False)
            else:
                s = R.real(p, SCALAR_KIND[p])
                scal[p] = s
                args_s.append(s)
                args_c.append(s)
        extra_domain(pkg, name, R, lib, carts, scal)
        if tsign:
            R.assume(carts[0][3] > 0 if tsign > 0 else carts[0][3] < 0)
        if mt2sign:
            R.assume(spec.Mt2(lib, carts[0]) >= 0 if mt2sign > 0 else spec.Mt2(lib, carts[0]) < 0)
        if name in ("equal", "not_equal") and R.mode == "sym" and len(sig_vecs) == 2:
            # (rho, phi, theta, eta) -> Cartesian is injective on the representable domain
            s1, c1 = lanes.stored(sig_vecs[0])
            s2, c2 = lanes.stored(sig_vecs[1])
            from symx import core as _core

            for k1, n1 in enumerate(_coord_names(s1)):
                for k2, n2 in enumerate(_coord_names(s2)):
                    if n1 == n2 and n1 in ("phi", "theta"):
                        _core.angle_window_lemma(c1[k1], c2[k2])
                    if n1 == n2 == "eta":
                        _core.exp_of(c1[k1]), _core.exp_of(c2[k2])
        ref = module.dispatch(*args_c)
        # the exact result must be representable in the system the variant declares (known before it runs)
        common.assume_representable_declared(R, lib, module.dispatch_map[sig][1:], ref, sig_vecs)
        got = module.dispatch(*args_s)
        common.assume_representable(R, lib, got, ref)
        goals = []
        if (pkg, name) in PASS_THROUGH_EXCEPTIONS and upper:
            # contract: lower coordinates transformed, higher *stored* coordinates untouched
            v = sig_vecs[0]
            n = PKG_DIM[pkg]
            cg, cr = spec.cart(lib, got), spec.cart(lib, ref)
            for nm, a, b in zip("xyz"[:n], cg, cr):
                goals.append((f"result.{nm}", G.eq(a, b)))
            if hasattr(v, "longitudinal") and n < 3:
                goals.append(("longitudinal-untouched", G.same(got.longitudinal.elements[0], v.longitudinal.elements[0])))
                goals.append(("longitudinal-type", G.true(type(got.longitudinal) is type(v.longitudinal))))
            if hasattr(v, "temporal"):
                goals.append(("temporal-untouched", G.same(got.temporal.elements[0], v.temporal.elements[0])))
                goals.append(("temporal-type", G.true(type(got.temporal) is type(v.temporal))))
        else:
            goals += common.compare_results(R, name, got, ref, lib)
        return goals

    return fn


# which lower-dimensional modules the public API also reaches with higher-dimensional vectors
UNARY_HIGHER = {
    "planar": {"x", "y", "rho", "rho2", "phi", "rotateZ", "scale", "transform2D"},
    "spatial": {"z", "theta", "eta", "costheta", "cottheta", "mag", "mag2", "rotateX", "rotateY", "rotate_euler",
                "rotate_quaternion", "scale", "transform3D"},
    "lorentz": set(),
}
BINARY_HIGHER = {
    ("planar", "deltaphi"): (True, True),
    ("spatial", "deltaangle"): (True, True),
    ("spatial", "deltaeta"): (True, True),
    ("spatial", "deltaR"): (True, True),
    ("spatial", "deltaR2"): (True, True),
    ("spatial", "rotate_axis"): (False, True),
}
UPPERS = {
    (2, 3): [("z",), ("theta",), ("eta",)],
    (2, 4): [("z", "t"), ("theta", "tau"), ("eta", "t"), ("z", "tau"), ("theta", "t"), ("eta", "tau")],
    (3, 4): [("t",), ("tau",)],
}


def _fam(key, pkg, name, module, sig, functions, **kw):
    f = Family(key, make_fn(pkg, name, module, sig, **kw), functions=functions, tier="quick")
    f.alt_fn = make_fn(pkg, name, module, sig, abstract=False, **kw)
    return f


def families(tier="quick"):
    fams = []
    for pkg, name, module in common.compute_modules():
        params = common.dispatch_params(module)
        nvec = sum(1 for p in params if p in VEC_PARAMS)
        d = PKG_DIM[pkg]
        fnames = [f"vector._compute.{pkg}.{name}"]
        for k, sig in enumerate(module.dispatch_map):
            sname = common.sig_name(sig)
            impl = module.dispatch_map[sig][0]
            fn_impl = fnames + [f"{impl.__module__}.{impl.__qualname__}"]
            if (pkg, name) in SIGN_SPLIT and sname.endswith("|t"):
                for sgn, tag in ((1, "@t>0"), (-1, "@t<0")):
                    fams.append(_fam(f"{PID}/{pkg}.{name}/{sname}{tag}", pkg, name, module, sig, fn_impl, tsign=sgn))
                continue
            fams.append(_fam(f"{PID}/{pkg}.{name}/{sname}", pkg, name, module, sig, fn_impl))
            if pkg == "lorentz" and nvec == 1 and sname.endswith("|tau") and name in SPACELIKE_UNARY:
                if name == "Mt2":
                    # t^2 - z^2 < 0 is a recorded finding (known_findings.json): the obligation is split so that the
                    # rest of the spacelike domain stays a full obligation
                    fams.append(_fam(f"{PID}/{pkg}.{name}/{sname}@spacelike", pkg, name, module, sig, fn_impl, spacelike=True, mt2sign=1))
                    fams.append(_fam(f"{PID}/{pkg}.{name}/{sname}@spacelike,Mt2<0", pkg, name, module, sig, fn_impl, spacelike=True, mt2sign=-1))
                    continue
                fams.append(_fam(f"{PID}/{pkg}.{name}/{sname}@spacelike", pkg, name, module, sig, fn_impl, spacelike=True))
            # higher-dimensional operands through the same entry (pass-through in _wrap_result)
            for hd in range(d + 1, 5):
                ups = UPPERS[(d, hd)]
                if nvec == 1 and name in UNARY_HIGHER[pkg]:
                    for ui, up in enumerate(ups):
                        full = tier == "thorough"
                        if not full and ui != (k % len(ups)):
                            continue
                        fams.append(_fam(f"{PID}/{pkg}.{name}/{sname}+{'_'.join(up)}", pkg, name, module, sig, fnames + ["VectorObject%dD._wrap_result" % hd], upper=[up], momentum=(k % 2 == 1, False)))
                        if up[-1] == "tau" and (pkg, name) not in PASS_THROUGH_EXCEPTIONS and name not in ("x", "y", "rho", "rho2", "phi", "z", "theta", "eta", "costheta", "cottheta", "mag", "mag2"):
                            fams.append(_fam(f"{PID}/{pkg}.{name}/{sname}+{'_'.join(up)}@spacelike", pkg, name, module, sig, fnames + ["VectorObject%dD._wrap_result" % hd], upper=[up], momentum=(k % 2 == 1, False), spacelike=True))
                elif nvec == 2 and (pkg, name) in BINARY_HIGHER:
                    hi = BINARY_HIGHER[(pkg, name)]
                    up1 = ups[k % len(ups)]
                    up2 = ups[(k // 2 + 1) % len(ups)]
                    upper = [up1 if hi[0] else (), up2 if hi[1] else ()]
                    fams.append(
                        _fam(f"{PID}/{pkg}.{name}/{sname}+{'_'.join(upper[0])}+{'_'.join(upper[1])}", pkg, name, module, sig, fnames + ["VectorObject%dD._wrap_result" % hd], upper=upper, momentum=(False, k % 2 == 0))
                    )
    return fams
