"""C09 — boosts are Lorentz transformations with the documented relations.

The public boost methods are executed on symbolic object vectors (boosted vector in all 12
systems, boosters in rotating systems); z3 decides the laws for all |beta| < 1.
"""
from __future__ import annotations

from symx import lanes
from symx import run as G
from symx.driver import Family
from spec import model as spec

from . import laws

PID = "C09"
EXPLANATION = (
    "bounded SMT checking of the symbolically executed real code: boostX/Y/Z (beta and gamma), boost_beta3, boost_p4, boost, boostCM_of* of the "
    "object backend are executed on z3-term vectors (boosted vector in all 12 coordinate systems, booster in rotating systems); z3 (QF_NRA with "
    "normal-form preprocessing) decides Minkowski invariance of the product of two boosted vectors, inverse by the opposite boost, velocity "
    "addition along an axis, agreement of the spellings (boost_p4 vs boost_beta3(to_beta3), axis boosts vs boost_beta3, beta vs signed gamma), "
    "dispatch of boost()/boostCM_of() on the booster's dimension, and the rest-frame statement for boostCM_of(v)"
)
BOUNDS = {"semantics": "exact reals", "domain": "|beta| < 1; booster 4-momentum timelike with E > 0; tau >= 0 for tau-stored vectors"}
K = "vector._compute.lorentz."


def _booster(R, kind, bsys, tag="b"):
    lib = R.lib
    if kind == "beta3":
        b = R.vec(bsys, tag)
        bc = spec.cart(lib, b)
        R.assume(bc[0] * bc[0] + bc[1] * bc[1] + bc[2] * bc[2] < 1)
        return b, bc
    p = R.vec(bsys, tag, momentum=True)
    pc = spec.cart(lib, p)
    R.assume(pc[3] > 0)
    R.assume(spec.tau2(lib, pc) > 0)
    return p, pc


BOOSTS = {
    "boostX": lambda R: (lambda v, b=R.real("beta", "beta"): v.boostX(beta=b)),
    "boostY": lambda R: (lambda v, b=R.real("beta", "beta"): v.boostY(beta=b)),
    "boostZ": lambda R: (lambda v, b=R.real("beta", "beta"): v.boostZ(beta=b)),
    "boostXg": lambda R: (lambda v, g=R.real("gamma", "gamma"): v.boostX(gamma=g)),
    "boostYg": lambda R: (lambda v, g=R.real("gamma", "gamma"): v.boostY(gamma=g)),
    "boostZg": lambda R: (lambda v, g=R.real("gamma", "gamma"): v.boostZ(gamma=g)),
}


SPEC_AXIS = {"boostX": ("x", "beta"), "boostY": ("y", "beta"), "boostZ": ("z", "beta"), "boostXg": ("x", "gamma"), "boostYg": ("y", "gamma"), "boostZg": ("z", "gamma")}


def f_invariance(system, which, bsys=None, spacelike=False):
    """Minkowski invariance of the product of two boosted vectors.
    t-stored: decided directly on the decoded results.  tau-stored (t is derived, not stored): decided
    modularly - (1) contract: the returned vector denotes the reference boost of the operand (spatial part,
    stored tau, sign of t), (2) the reference boost preserves the product (on abstraction symbols);
    (1) and (2) imply the invariance of the product of the decoded results."""

    def fn(R):
        lib = R.lib
        a = R.vec(system, "1", tau_nonneg=not spacelike)
        w = R.vec(("xy", "z", "t"), "2")
        if spacelike:
            # negative stored tau = spacelike vector; representable when mag^2 >= tau^2
            _, co = lanes.stored(a)
            R.assume(co[3] < 0)
            c3 = spec.decode(lib, system[:2], co[:3])
            R.assume(c3[0] * c3[0] + c3[1] * c3[1] + c3[2] * c3[2] - co[3] * co[3] > 0)
        ca, cw = spec.cart(lib, a), spec.cart(lib, w)
        if which in BOOSTS:
            op = BOOSTS[which](R)
            axis, par = SPEC_AXIS[which]
            pv = R.real(par, par)
            ref = (lambda c: spec.boost_axis_beta(lib, axis, pv, c)) if par == "beta" else (lambda c: spec.boost_axis_gamma(lib, axis, pv, c))
        elif which == "boost_beta3":
            b, bc = _booster(R, "beta3", bsys)
            op = lambda v: v.boost_beta3(b)
            ref = lambda c: spec.boost_beta3(lib, bc, c)
        else:
            p, pc = _booster(R, "p4", bsys)
            op = lambda v: v.boost_p4(p)
            ref = lambda c: spec.boost_p4(lib, pc, c)
        ref_a, ref_w = ref(ca), ref(cw)
        if spacelike:
            # a boost can turn the time component of a spacelike vector negative, which tau storage
            # (t >= 0 by convention) cannot represent: assume the exact result is representable
            R.assume(ref_a[3] > 0)
        ra, rw = op(a), op(w)
        goals = []
        if system[2] == "t":
            cra, crw = spec.cart(lib, ra), spec.cart(lib, rw)
            goals.append(("minkowski-product", G.eq(laws.mdot(cra, crw), laws.mdot(ca, cw))))
            goals.append(("tau2", G.eq(laws.mdot(cra, cra), laws.mdot(ca, ca))))
        else:
            # (1) contract
            sa, coa = lanes.stored(ra)
            cra3 = spec.decode(lib, sa[:2], coa[:3])
            for i, nm in enumerate("xyz"):
                goals.append((f"contract.{nm}", G.eq(cra3[i], ref_a[i])))
            goals.append(("contract.tau-untouched", G.eq(ra.tau, a.tau)))
            goals.append(("contract.stored-as-tau", G.true(sa[2] == "tau")))
            goals.append(("contract.t>=0", G.ge(ref_a[3], 0)))
            crw = spec.cart(lib, rw)
            for i, nm in enumerate("xyzt"):
                goals.append((f"contract-w.{nm}", G.eq(crw[i], ref_w[i])))
            # (2) the reference boost is a Lorentz transformation
            goals.append(("reference.minkowski-product", G.eq(laws.mdot(ref_a, ref_w), laws.mdot(ca, cw))))
            goals.append(("reference.tau2", G.eq(laws.mdot(ref_a, ref_a), laws.mdot(ca, ca))))
        goals.append(("dimension", G.true(len(lanes.stored(ra)[0]) == 3, "boosted vector stays 4D")))
        return goals

    return fn


def _contract(R, got, operand, ref, label):
    """the returned vector denotes the reference transform `ref` (Cartesian list) of `operand`"""
    lib = R.lib
    sa, coa = lanes.stored(got)
    goals = []  # (the result may be stored in another system of the 12: every system has its own contract family)
    c3 = spec.decode(lib, sa[:2], coa[:3])
    for i, nm in enumerate("xyz"):
        goals.append((f"{label}.{nm}", G.eq(c3[i], ref[i])))
    if sa[2] == "tau" and lanes.stored(operand)[0][2] == "tau":
        goals.append((f"{label}.tau-untouched", G.eq(coa[3], lanes.stored(operand)[1][3])))
        goals.append((f"{label}.t>=0", G.ge(ref[3], 0)))
    elif sa[2] == "tau":
        goals.append((f"{label}.tau2", G.eq(coa[3] * coa[3], laws.mdot(ref, ref))))
        goals.append((f"{label}.t>=0", G.ge(ref[3], 0)))
    else:
        goals.append((f"{label}.t", G.eq(coa[3], ref[3])))
    return goals


def f_inverse_axis(system, axis):
    """tau-stored vectors: contract of one step from an arbitrary symbolic vector of the system + the law on
    the reference boosts (two-level); t-stored: additionally the nested public calls directly"""

    def fn(R):
        lib = R.lib
        b = R.real("beta", "beta")
        v = R.vec(system, "1")
        c = spec.cart(lib, v)
        ax = axis.lower()
        one = getattr(v, f"boost{axis}")(beta=b)
        ref1 = spec.boost_axis_beta(lib, ax, b, c)
        goals = _contract(R, one, v, ref1, "step")
        back_ref = spec.boost_axis_beta(lib, ax, -b, ref1)
        goals += [(f"reference-inverse.{nm}", G.eq(x, y)) for nm, x, y in zip("xyzt", back_ref, c)]
        if system[2] == "t":
            back = getattr(one, f"boost{axis}")(beta=-b)
            goals += laws.same_vector(R, back, v, "inverse")
        return goals

    return fn


def f_compose_axis(system, axis):
    def fn(R):
        lib = R.lib
        b1, b2 = R.real("beta1", "beta"), R.real("beta2", "beta")
        v = R.vec(system, "1")
        c = spec.cart(lib, v)
        ax = axis.lower()
        b12 = (b1 + b2) / (1 + b1 * b2)
        first = getattr(v, f"boost{axis}")(beta=b1)
        goals = _contract(R, first, v, spec.boost_axis_beta(lib, ax, b1, c), "step")
        two_ref = spec.boost_axis_beta(lib, ax, b2, spec.boost_axis_beta(lib, ax, b1, c))
        one_ref = spec.boost_axis_beta(lib, ax, b12, c)
        goals += [(f"reference-velocity-addition.{nm}", G.eq(x, y)) for nm, x, y in zip("xyzt", two_ref, one_ref)]
        if system[2] == "t":
            two = getattr(first, f"boost{axis}")(beta=b2)
            one = getattr(v, f"boost{axis}")(beta=b12)
            goals += laws.same_vector(R, two, one, "velocity-addition")
        return goals

    return fn


def f_inverse_beta3(system, bsys):
    def fn(R):
        lib = R.lib
        v = R.vec(system, "1")
        c = spec.cart(lib, v)
        b, bc = _booster(R, "beta3", bsys)
        nb = R.build(("xy", "z"), [-bc[0], -bc[1], -bc[2]])
        one = v.boost_beta3(b)
        ref1 = spec.boost_beta3(lib, bc, c)
        goals = _contract(R, one, v, ref1, "step")
        back_ref = spec.boost_beta3(lib, [-bc[0], -bc[1], -bc[2]], ref1)
        goals += [(f"reference-inverse.{nm}", G.eq(x, y)) for nm, x, y in zip("xyzt", back_ref, c)]
        if system[2] == "t":
            goals += laws.same_vector(R, one.boost_beta3(nb), v, "inverse")
        return goals

    return fn


def f_spellings_axis(system, axis):
    def fn(R):
        lib = R.lib
        b = R.real("beta", "beta")
        v = R.vec(system, "1")
        i = "XYZ".index(axis)
        comp = [0, 0, 0]
        comp[i] = b
        b3 = R.build(("xy", "z"), comp)
        g = 1 / lib.sqrt(1 - b * b)
        sg = lib.copysign(g, b)
        r1 = getattr(v, f"boost{axis}")(beta=b)
        goals = laws.same_vector(R, v.boost_beta3(b3), r1, "beta3-along-axis")
        R.assume(b != 0)  # the direction of a gamma = 1 boost is undefined
        goals += laws.same_vector(R, getattr(v, f"boost{axis}")(gamma=sg), r1, "signed-gamma")
        return goals

    return fn


def f_p4_vs_beta3(system, bsys):
    """boost_p4(p) = boost_beta3(p.to_beta3()); boost()/boostCM_of() dispatch to the 4D spellings.
    Both spellings are tied to the same reference boost (contracts); t-stored vectors also directly."""

    def fn(R):
        lib = R.lib
        v = R.vec(system, "1")
        c = spec.cart(lib, v)
        p, pc = _booster(R, "p4", bsys)
        ref = spec.boost_p4(lib, pc, c)
        r_p4 = v.boost_p4(p)
        b3 = p.to_beta3()
        b3c = spec.cart(lib, b3)
        goals = [(f"to_beta3.{nm}", G.eq(x, y / pc[3])) for nm, x, y in zip("xyz", b3c, pc)]
        r_b3 = v.boost_beta3(b3)
        goals += _contract(R, r_p4, v, ref, "boost_p4")
        goals += _contract(R, r_b3, v, ref, "boost_beta3(to_beta3)")
        r_boost = v.boost(p)
        goals += _contract(R, r_boost, v, ref, "boost(4D)")
        refcm = spec.boost_p4(lib, [-pc[0], -pc[1], -pc[2], pc[3]], c)
        goals += _contract(R, v.boostCM_of_p4(p), v, refcm, "boostCM_of_p4")
        goals += _contract(R, v.boostCM_of(p), v, refcm, "boostCM_of(4D)")
        if system[2] == "t":
            goals += laws.same_vector(R, r_p4, r_b3, "p4-vs-beta3")
        return goals

    return fn


def f_dispatch3(system, bsys):
    def fn(R):
        lib = R.lib
        v = R.vec(system, "1")
        c = spec.cart(lib, v)
        b, bc = _booster(R, "beta3", bsys)
        ref = spec.boost_beta3(lib, bc, c)
        refcm = spec.boost_beta3(lib, [-bc[0], -bc[1], -bc[2]], c)
        goals = _contract(R, v.boost(b), v, ref, "boost(3D)")
        goals += _contract(R, v.boost_beta3(b), v, ref, "boost_beta3")
        goals += _contract(R, v.boostCM_of(b), v, refcm, "boostCM_of(3D)")
        goals += _contract(R, v.boostCM_of_beta3(b), v, refcm, "boostCM_of_beta3")
        if system[2] == "t":
            nb = R.build(("xy", "z"), [-bc[0], -bc[1], -bc[2]])
            goals += laws.same_vector(R, v.boostCM_of_beta3(b), v.boost_beta3(nb), "CM-is-opposite-boost")
        return goals

    return fn


def f_dispatch_errors(system):
    def fn(R):
        v = R.vec(system, "1")
        two = R.vec(("xy",), "q")
        out = []
        for name, call in (("boost(2D)", lambda: v.boost(two)), ("boostCM_of(2D)", lambda: v.boostCM_of(two)), ("boost_p4(2D)", lambda: v.boost_p4(two)), ("boost_beta3(2D)", lambda: v.boost_beta3(two)), ("boostX()", lambda: v.boostX()), ("boostX(both)", lambda: v.boostX(beta=0.5, gamma=2.0))):
            try:
                call()
                ok = False
            except TypeError:
                ok = True
            out.append((f"TypeError:{name}", G.true(ok, name)))
        return out

    return fn


def f_rest_frame(system):
    def fn(R):
        lib = R.lib
        v = R.vec(system, "1", momentum=True)
        c = spec.cart(lib, v)
        R.assume(c[3] > 0)
        R.assume(spec.tau2(lib, c) > 0)
        goals = []
        for nm, r in (("boostCM_of_p4", v.boostCM_of_p4(v)), ("boostCM_of", v.boostCM_of(v)), ("boostCM_of_beta3", v.boostCM_of_beta3(v.to_beta3()))):
            cr = spec.cart(lib, r)
            goals += [(f"{nm}.x=0", G.eq(cr[0], 0)), (f"{nm}.y=0", G.eq(cr[1], 0)), (f"{nm}.z=0", G.eq(cr[2], 0))]
            goals.append((f"{nm}.t2=tau2", G.eq(cr[3] * cr[3], spec.tau2(lib, c))))
            goals.append((f"{nm}.t>=0", G.ge(cr[3], 0)))
        return goals

    return fn


def families(tier="quick"):
    fams = []

    def add(key, fn, functions, defd=False):
        _f = Family(f"{PID}/{key}", fn, defd=defd, functions=functions)
        _f.abstract = True
        fams.append(_f)

    for si, s in enumerate(lanes.SYS4):
        n = lanes.sysname(s)
        for w in BOOSTS:
            add(f"invariance/{w}/{n}", f_invariance(s, w), [K + f"{w[:6]}_{'gamma' if w.endswith('g') else 'beta'}", K + "dot"])
        b3s = [lanes.SYS3[si % 6], ("xy", "z")] if tier != "thorough" else lanes.SYS3
        b4s = [lanes.SYS4[(si * 5 + 1) % 12], ("xy", "z", "t")] if tier != "thorough" else lanes.SYS4
        for b3 in dict.fromkeys(b3s):
            add(f"invariance/boost_beta3/{n}|{lanes.sysname(b3)}", f_invariance(s, "boost_beta3", b3), [K + "boost_beta3"])
            add(f"dispatch3/{n}|{lanes.sysname(b3)}", f_dispatch3(s, b3), ["vector._methods.Lorentz.boost", "vector._methods.Lorentz.boostCM_of", K + "boost_beta3", "vector._compute.spatial.scale"])
        for b4 in dict.fromkeys(b4s):
            add(f"invariance/boost_p4/{n}|{lanes.sysname(b4)}", f_invariance(s, "boost_p4", b4), [K + "boost_p4"])
            add(f"p4-vs-beta3/{n}|{lanes.sysname(b4)}", f_p4_vs_beta3(s, b4), [K + "boost_p4", K + "boost_beta3", K + "to_beta3", "vector._methods.Lorentz.boost"])
        add(f"inverse-beta3/{n}|xy_z", f_inverse_beta3(s, ("xy", "z")), [K + "boost_beta3"])
        if s[2] == "tau":
            for w in BOOSTS:
                add(f"invariance-spacelike/{w}/{n}", f_invariance(s, w, spacelike=True), [K + (f"{w[:-1]}_gamma" if w.endswith("g") else f"{w}_beta"), K + "transform4D", K + "t"])
            add(f"invariance-spacelike/boost_beta3/{n}|xy_z", f_invariance(s, "boost_beta3", ("xy", "z"), spacelike=True), [K + "boost_beta3", K + "transform4D"])
            add(f"invariance-spacelike/boost_p4/{n}|xy_z_t", f_invariance(s, "boost_p4", ("xy", "z", "t"), spacelike=True), [K + "boost_p4", K + "transform4D"])
        for ax in "XYZ":
            add(f"inverse/boost{ax}/{n}", f_inverse_axis(s, ax), [K + f"boost{ax}_beta"])
            add(f"compose/boost{ax}/{n}", f_compose_axis(s, ax), [K + f"boost{ax}_beta"])
            add(f"spellings/boost{ax}/{n}", f_spellings_axis(s, ax), [K + f"boost{ax}_beta", K + f"boost{ax}_gamma", K + "boost_beta3"])
        add(f"rest-frame/{n}", f_rest_frame(s), ["vector._methods.Lorentz.boostCM_of_p4", "vector._methods.Lorentz.boostCM_of", K + "boost_p4", "vector._compute.spatial.scale"])
        add(f"dispatch-errors/{n}", f_dispatch_errors(s), ["vector._methods.Lorentz.boost", "vector._methods.Lorentz.boostX"])
    return fams
