"""C12 — equality, inequality and closeness are coherent.

Exact-real lane: for every pairing of coordinate systems (4 + 36 + 144) the public operators and
methods are executed on symbolic object vectors; z3 decides the boolean laws for all real operands.
FP lane (props/c12fp.py helper below): the same-system kernels are executed on z3 Float64 terms.
"""
from __future__ import annotations

import z3

from symx import core, lanes
from symx import run as G
from symx.driver import Family

PID = "C12"
EXPLANATION = (
    "bounded SMT checking of the symbolically executed real code: ==, !=, equal, not_equal, isclose of the object backend are "
    "executed on z3-term coordinates for every pairing of coordinate systems; z3 (QF_NRA) decides '!= is the negation of ==', symmetry, "
    "'== implies isclose', reflexivity, tolerance monotonicity and, for same-system operands, the component-wise characterisations; "
    "the same-system kernels are additionally executed on z3 Float64 terms (QF_FP, bit-exact IEEE, NaN excluded as the property says); the real VectorNumpy "
    "classes (arrays of z3-term scalars) execute ==, !=, numpy.equal/not_equal/isclose/allclose and each element must be the object-backend method's result"
)
BOUNDS = {
    "semantics": "exact reals for all system pairings; IEEE Float64 (bit-exact) for same-system ==/!= kernels",
    "outside": "tolerance monotonicity in IEEE arithmetic (queries do not finish, DESIGN.md §8); Awkward arrays (C++ layouts); numpy.allclose on one-element views only (the reduction of several symbolic truth values is not a term)",
}


def _names(system):
    return list(lanes.AZ_NAMES[system[0]]) + list(system[1:])


def make_fn(s1, s2):
    same = s1 == s2

    def fn(R):
        # every finite stored value, negative tau (the encoding of spacelike vectors) included
        a = R.vec(s1, "1", tau_nonneg=False)
        b = R.vec(s2, "2", momentum=True, tau_nonneg=False)
        rtol, atol = R.real("rtol", "tol"), R.real("atol", "tol")
        rtol2, atol2 = R.real("rtol2", "tol"), R.real("atol2", "tol")
        if R.mode == "sym":
            _, c1 = lanes.stored(a)
            _, c2 = lanes.stored(b)
            for k1, n1 in enumerate(_names(s1)):
                for k2, n2 in enumerate(_names(s2)):
                    if n1 == n2 and n1 in ("phi", "theta"):
                        core.angle_window_lemma(c1[k1], c2[k2])
                    if n1 == n2 == "eta":
                        core.exp_of(c1[k1]), core.exp_of(c2[k2])
        eq_op = a == b
        ne_op = a != b
        eq_m = a.equal(b)
        ne_m = a.not_equal(b)
        eq_rev = b == a
        ic = a.isclose(b, rtol=rtol, atol=atol)
        goals = [
            ("ne-is-not-eq", G.iff(ne_op, G.neg(eq_op))),
            ("eq-operator-is-method", G.iff(eq_op, eq_m)),
            ("ne-operator-is-method", G.iff(ne_op, ne_m)),
            ("eq-symmetric", G.iff(eq_op, eq_rev)),
            ("eq-implies-isclose", G.implies(eq_op, ic)),
        ]
        # monotone in each tolerance
        R.assume(rtol2 >= rtol)
        R.assume(atol2 >= atol)
        ic2 = a.isclose(b, rtol=rtol2, atol=atol2)
        goals.append(("isclose-monotone", G.implies_componentwise(ic, ic2)))
        if same:
            _, c1 = lanes.stored(a)
            _, c2 = lanes.stored(b)
            lib = R.lib
            alleq = None
            allclose = None
            for x, y in zip(c1, c2):
                e = x == y
                alleq = e if alleq is None else (alleq & e)
                cl = lib.absolute(x - y) <= atol + rtol * lib.absolute(y)
                allclose = cl if allclose is None else (allclose & cl)
            goals.append(("eq-iff-stored-coordinates-equal", G.iff(eq_op, alleq)))
            goals.append(("isclose-iff-componentwise", G.iff(ic, allclose)))
        return goals

    return fn


def make_reflexive(s1):
    def fn(R):
        a = R.vec(s1, "1", tau_nonneg=False)
        rtol, atol = R.real("rtol", "tol"), R.real("atol", "tol")
        return [
            ("eq-reflexive", G.holds(a == a)),
            ("ne-irreflexive", G.neg(a != a)),
            ("isclose-reflexive", G.holds(a.isclose(a, rtol=rtol, atol=atol))),
            ("isclose-default-reflexive", G.holds(a.isclose(a))),
        ]

    return fn


# ---- Float64 lane: same-system kernels on z3 FP terms -------------------------------------------


class FP:
    """IEEE double as a z3 term with numpy-like comparison operators (what the kernels use)"""

    F = z3.Float64()

    def __init__(self, t):
        self.t = t

    def __eq__(self, o):
        return core.SymBool(z3.fpEQ(self.t, o.t))

    def __ne__(self, o):
        return core.SymBool(z3.Not(z3.fpEQ(self.t, o.t)))

    def __hash__(self):
        return id(self)


def make_fp(pkg, name_eq, name_ne, sig):
    import importlib

    from . import common

    def fn(R):
        meq = importlib.import_module(f"vector._compute.{pkg}.equal")
        mne = importlib.import_module(f"vector._compute.{pkg}.not_equal")
        feq = meq.dispatch_map[sig][0]
        fne = mne.dispatch_map[sig][0]
        systems, _ = common.split_signature(sig)
        n = sum(len(_names(s)) for s in systems)
        if R.mode != "sym":
            # concrete replay: plain Python floats through the same kernels
            import numpy

            vals = [float(R.real(f"f{i}", "real")) for i in range(n)]
            e = feq(numpy, *vals)
            ne = fne(numpy, *vals)
            half = n // 2
            return [
                ("fp-ne-is-not-eq", G.true(bool(ne) == (not bool(e)), f"ne={ne} eq={e}")),
                ("fp-eq-iff-all-equal", G.true(bool(e) == all(vals[i] == vals[half + i] for i in range(half)))),
            ]
        xs = [FP(z3.FP(f"fp{i}", FP.F)) for i in range(n)]
        for i in range(n):
            R.real(f"f{i}", "real")  # registers the input names for replay
            R.ctx.fp_inputs[f"f{i}"] = xs[i].t
        nonan = z3.And(*[z3.Not(z3.fpIsNaN(x.t)) for x in xs])
        R.ctx.dom_simple.append(nonan)
        e = feq(core.LIB, *xs)
        ne = fne(core.LIB, *xs)
        half = n // 2
        alleq = z3.And(*[z3.fpEQ(xs[i].t, xs[half + i].t) for i in range(half)])
        return [
            ("fp-ne-is-not-eq", G.Goal(ne.t == z3.Not(e.t), kind="fp")),
            ("fp-eq-iff-all-equal", G.Goal(e.t == alleq, kind="fp")),
        ]

    return fn


def families(tier="quick"):
    from . import common

    fams = []
    for d in (2, 3, 4):
        systems = lanes.ALL_SYS[d]
        for s1 in systems:
            fams.append(
                Family(
                    f"{PID}/reflexive/{lanes.sysname(s1)}",
                    make_reflexive(s1),
                    defd=False,
                    functions=[f"vector._compute.{p}.{m}" for p in ("planar", "spatial", "lorentz")[d - 2 : d - 1] for m in ("equal", "not_equal", "isclose")]
                    + ["vector.backends.object.VectorObject.__eq__", "vector.backends.object.VectorObject.__ne__", "vector.backends.object.VectorObject.__array_ufunc__"],
                )
            )
            for s2 in systems:
                fams.append(
                    Family(
                        f"{PID}/laws/{lanes.sysname(s1)}|{lanes.sysname(s2)}",
                        make_fn(s1, s2),
                        defd=False,
                        functions=[f"vector._compute.{p}.{m}" for p in ("planar", "spatial", "lorentz")[d - 2 : d - 1] for m in ("equal", "not_equal", "isclose")]
                        + ["vector._methods._maybe_same_dimension_error", "vector.backends.object.VectorObject.__array_ufunc__"],
                    )
                )
    # NumPy lane: the numpy.equal / not_equal / isclose / allclose function forms and the operators of the real VectorNumpy
    # classes against the object-backend methods, element by element (helpers of props/c03.py)
    from . import c03

    NPF = ["vector.backends.numpy.VectorNumpy.__array_function__", "vector.backends.numpy.VectorNumpy.__array_ufunc__", "vector.backends.numpy.VectorNumpy.allclose", "vector.backends.numpy.VectorNumpy.__eq__", "vector.backends.numpy.VectorNumpy.__ne__"]
    for d in (2, 3, 4):
        systems = lanes.ALL_SYS[d]
        k = 0
        for i1, s1 in enumerate(systems):
            for i2, s2 in enumerate(systems):
                if tier != "thorough" and not (s1 == s2 or i2 == (i1 + 1) % len(systems)):
                    continue
                pairings = ("nn", "no", "on") if tier == "thorough" else (("nn", "no", "on")[k % 3],) if s1 != s2 else ("nn",)
                k += 1
                for pairing in pairings:
                    for m1, m2 in ((False, True), (True, False)) if (tier == "thorough" or pairing == "nn") else ((False, True),):
                        tag = {(False, True): "generic,momentum", (True, False): "momentum,generic"}[(m1, m2)]
                        fams.append(
                            Family(f"{PID}/numpy-forms/{pairing}/{lanes.sysname(s1)}|{lanes.sysname(s2)}/{tag}", c03.f_np_forms(s1, s2, pairing, (2,), m1, m2), defd=False, functions=NPF, hard_s=400, structural=True)
                        )
    # Float64 lane on the same-system kernels
    import importlib

    for pkg in ("planar", "spatial", "lorentz"):
        meq = importlib.import_module(f"vector._compute.{pkg}.equal")
        for sig in meq.dispatch_map:
            systems, _ = common.split_signature(sig)
            if len(systems) == 2 and systems[0] == systems[1]:
                fams.append(
                    Family(
                        f"{PID}/float64/{pkg}/{common.sig_name(sig)}",
                        make_fp(pkg, "equal", "not_equal", sig),
                        defd=False,
                        functions=[f"vector._compute.{pkg}.equal", f"vector._compute.{pkg}.not_equal"],
                        note="QF_FP, bit-exact IEEE double, NaN excluded",
                    )
                )
    return fams
