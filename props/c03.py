"""C03 — object and NumPy backends compute the same values (Awkward excluded).

NumPy lane (symx/nplane.py): the real VectorNumpy*D classes on structured arrays of dtype object
holding the *same* symbolic scalars the object-lane vectors hold.  Element i of every array result
must be the object-backend result for element i: same term (identity) or z3-equal.
"""
from __future__ import annotations

import numpy

from symx import core, lanes, nplane
from symx import run as G
from symx.driver import Family

from vector._methods import Momentum, Vector

PID = "C03"
EXPLANATION = (
    "bounded SMT checking of the symbolically executed real code on two backends at once: each public property / method is executed by the object "
    "backend on vectors of z3-term scalars and by the NumPy backend (the real VectorNumpy*D/MomentumNumpy*D classes, _wrap_result, _toarrays, "
    "_shape_of, __array_ufunc__, _getitem) on structured arrays of dtype object holding the same scalars; for every element the array result must "
    "be the object result: the same term object, or z3 (QF_NRA) proves the two terms equal; field names, shape, result class and flavor are "
    "compared structurally; pairings NumPy x NumPy, NumPy x object, object x NumPy; scalar arguments as plain scalars and as arrays"
)
BOUNDS = {"shapes": "(2,) in the quick tier; (2,), (1,), (2, 2) and broadcasting (2,1)x(2,) in the thorough tier", "outside": "Awkward arrays and records (C++ buffers), float64 dtype promotion"}
ASSUMPTIONS = ["exact real arithmetic", "stub: " + nplane.STUBS[0], "lib and _wrap_dispatched_function of the lane's NumPy subclasses are the term-building adapters (DESIGN.md 2.5)"]

KIND = {"rho": "pos", "phi": "phi", "theta": "theta", "tau": "nonneg"}


def lane(R):
    return nplane.classes(R.lib, "L" + R.mode)


def np_operand(R, system, tag, shape, momentum=False, offaxis=True):
    ocls, N, alib = lane(R)
    names = nplane.field_names(system)
    cols = []
    for nm in names:
        col = numpy.empty(shape, dtype=object)
        for idx in numpy.ndindex(shape):
            col[idx] = R.real(f"{nm}{tag}_{'_'.join(map(str, idx))}", KIND.get(nm, "real"))
        cols.append(col)
    if system[0] == "xy" and (offaxis or (len(system) > 1 and system[1] != "z")):
        for idx in numpy.ndindex(shape):
            R.assume((cols[0][idx] != 0) | (cols[1][idx] != 0))
    return nplane.build_array(N, system, cols, shape, momentum), cols


def obj_element(R, system, cols, idx, momentum=False):
    ocls, N, alib = lane(R)
    return lanes.build(ocls, system, [c[idx] for c in cols], momentum)


def np_snapshot(a):
    return (type(a).__name__, a.dtype.names, a.shape, tuple(tuple(id(x) for x in a[n].ravel()) for n in a.dtype.names))


def compare(R, label, res_np, res_obj, idx):
    """element idx of the NumPy result vs the object result"""
    goals = []
    if isinstance(res_obj, Vector):
        if not isinstance(res_np, Vector):
            return [(f"{label}:kind", G.true(False, f"{type(res_np).__name__} vs vector"))]
        so, co = lanes.stored(res_obj)
        try:
            sn, cn = nplane.element_coords(res_np, idx)
        except Exception as e:
            return [(f"{label}:fields", G.true(False, f"{type(e).__name__}: {e}"))]
        goals.append((f"{label}:system", G.true(so == sn, f"{so} vs {sn}")))
        goals.append((f"{label}:flavor", G.true(isinstance(res_np, Momentum) == isinstance(res_obj, Momentum), type(res_np).__name__)))
        if so == sn:
            for nm, x, y in zip(nplane.field_names(so), cn, co):
                goals.append((f"{label}.{nm}", G.true(True) if x is y else G.eq(x, y)))
        return goals
    if isinstance(res_np, Vector):
        return [(f"{label}:kind", G.true(False, "vector vs scalar"))]
    x = res_np[idx] if hasattr(res_np, "shape") and res_np.shape != () else res_np
    if isinstance(res_obj, (bool, numpy.bool_)) or (hasattr(res_obj, "t") and not hasattr(res_obj, "n")):
        goals.append((label, G.iff(x, res_obj)))
    else:
        goals.append((label, G.true(True) if x is res_obj else G.eq(x, res_obj)))
    return goals


UNARY_PROPS = {
    2: ["x", "y", "rho", "rho2", "phi"],
    3: ["z", "theta", "eta", "costheta", "cottheta", "mag", "mag2"],
    4: ["t", "t2", "tau", "tau2", "beta", "gamma", "rapidity"],
}
MOM_PROPS = {2: ["px", "py", "pt", "pt2"], 3: ["pz", "p", "p2", "pseudorapidity"], 4: ["E", "e", "energy", "M", "mass", "Et", "Et2", "Mt", "Mt2", "transverse_mass"]}


def unary_calls(d, R):
    """(label, thunk(v)) list; scalar arguments are created once and shared by both backends"""
    k = R.real("k", "nonneg")
    ang = R.real("ang", "angle")
    calls = [
        ("unit", lambda v: v.unit()),
        ("scale", lambda v: v.scale(k)),
        ("mul", lambda v: v * k),
        ("rmul", lambda v: k * v),
        ("rotateZ", lambda v: v.rotateZ(ang)),
        ("to_xy", lambda v: v.to_xy()),
        ("to_rhophi", lambda v: v.to_rhophi()),
        ("to_Vector3D", lambda v: v.to_Vector3D()),
        ("to_Vector4D", lambda v: v.to_Vector4D()),
        ("to_Vector2D", lambda v: v.to_Vector2D()),
        ("abs", lambda v: abs(v)),
        ("pow3", lambda v: v**3),
        ("pow2", lambda v: v**2),
    ]
    if d >= 3:
        calls += [
            ("rotateX", lambda v: v.rotateX(ang)),
            ("rotateY", lambda v: v.rotateY(ang)),
            ("rotate_euler", lambda v: v.rotate_euler(ang, k, ang, "zyx")),
            ("to_rhophieta", lambda v: v.to_rhophieta()),
            ("to_xytheta", lambda v: v.to_xytheta()),
            ("to_xyz", lambda v: v.to_xyz()),
            ("scale2D", lambda v: v.scale2D(k)),
        ]
    if d == 4:
        b = R.real("b", "beta")
        calls += [
            ("boostX", lambda v: v.boostX(beta=b)),
            ("boostZ", lambda v: v.boostZ(beta=b)),
            ("to_beta3", lambda v: v.to_beta3()),
            ("to_xyzt", lambda v: v.to_xyzt()),
            ("to_rhophietatau", lambda v: v.to_rhophietatau()),
            ("is_timelike", lambda v: v.is_timelike(k)),
            ("is_lightlike", lambda v: v.is_lightlike(k)),
            ("scale3D", lambda v: v.scale3D(k)),
        ]
    return calls


def keyword_calls(d):
    """conversions with imputed coordinates given as keywords: (label, call(v, p, q)); p and q are arrays for the NumPy
    operand (a plain scalar would be cast to float64 by _toarrays: lane limit) and that element's values for the object;
    distinct values, so a swap of the longitudinal and temporal slots shows"""
    if d == 2:
        return [
            ("to_Vector3D(z=)", lambda v, p, q: v.to_Vector3D(z=p)),
            ("to_Vector3D(theta=)", lambda v, p, q: v.to_Vector3D(theta=q)),
            ("to_Vector4D(z=,t=)", lambda v, p, q: v.to_Vector4D(z=p, t=q)),
            ("to_Vector4D(eta=,tau=)", lambda v, p, q: v.to_Vector4D(eta=q, tau=p)),
            ("to_xyzt(z=,t=)", lambda v, p, q: v.to_xyzt(z=p, t=q)),
            ("to_rhophietatau(eta=,tau=)", lambda v, p, q: v.to_rhophietatau(eta=q, tau=p)),
            ("to_xythetatau(theta=,tau=)", lambda v, p, q: v.to_xythetatau(theta=q, tau=p)),
            ("to_rhophiz(z=)", lambda v, p, q: v.to_rhophiz(z=p)),
        ]
    if d == 3:
        return [
            ("to_Vector4D(t=)", lambda v, p, q: v.to_Vector4D(t=q)),
            ("to_Vector4D(tau=)", lambda v, p, q: v.to_Vector4D(tau=p)),
            ("to_xyzt(t=)", lambda v, p, q: v.to_xyzt(t=q)),
            ("to_rhophietatau(tau=)", lambda v, p, q: v.to_rhophietatau(tau=p)),
        ]
    return []


def f_unary(system, momentum, shape):
    d = len(system) + 1

    def fn(R):
        a, cols = np_operand(R, system, "a", shape, momentum)
        snap = np_snapshot(a)
        # no timelike / forward assumption: both backends must agree wherever they are defined
        goals = []
        idxs = list(numpy.ndindex(shape))
        objs = {idx: obj_element(R, system, cols, idx, momentum) for idx in idxs}
        props = []
        for dd in range(2, d + 1):
            props += UNARY_PROPS[dd] + (MOM_PROPS[dd] if momentum else [])
        for p in props:
            rn = getattr(a, p)
            goals.append((f"{p}:shape", G.true(getattr(rn, "shape", None) == shape, f"{getattr(rn, 'shape', None)}")))
            for idx in idxs:
                goals += compare(R, f"{p}[{idx}]", rn, getattr(objs[idx], p), idx)
        for label, call in unary_calls(d, R):
            try:
                rn = call(a)
            except Exception as e:
                goals.append((f"{label}:numpy-raised", G.true(False, f"{type(e).__name__}: {str(e)[:100]}")))
                continue
            goals.append((f"{label}:shape", G.true(getattr(rn, "shape", None) == shape, f"{getattr(rn, 'shape', None)}")))
            for idx in idxs:
                goals += compare(R, f"{label}[{idx}]", rn, call(objs[idx]), idx)
        if d < 4:
            P = numpy.empty(shape, dtype=object)
            Q = numpy.empty(shape, dtype=object)
            for idx in idxs:
                P[idx] = R.real(f"kwp_{'_'.join(map(str, idx))}", "nonneg")
                Q[idx] = R.real(f"kwq_{'_'.join(map(str, idx))}", "theta")
            for label, call in keyword_calls(d):
                try:
                    rn = call(a, P, Q)
                except Exception as e:
                    goals.append((f"{label}:numpy-raised", G.true(False, f"{type(e).__name__}: {str(e)[:100]}")))
                    continue
                goals.append((f"{label}:shape", G.true(getattr(rn, "shape", None) == shape, f"{getattr(rn, 'shape', None)}")))
                for idx in idxs:
                    goals += compare(R, f"{label}[{idx}]", rn, call(objs[idx], P[idx], Q[idx]), idx)
        # integer indexing returns the object vector of that element
        for idx in idxs:
            e = a[idx]
            se, ce = lanes.stored(e)
            goals.append((f"getitem[{idx}]", G.true(se == tuple(system) and all(x is y for x, y in zip(ce, [c[idx] for c in cols])) and isinstance(e, Momentum) == momentum)))
        goals.append(("frame:array-unmodified", G.true(np_snapshot(a) == snap)))
        return goals

    return fn


BINARY_CALLS = {
    2: ["add", "subtract", "dot", "deltaphi", "equal", "not_equal", "isclose", "is_parallel", "is_antiparallel", "is_perpendicular"],
    3: ["cross", "deltaangle", "deltaeta", "deltaR", "deltaR2"],
    4: ["boost_p4", "deltaRapidityPhi"],
}
OPS = {"+": lambda a, b: a + b, "-": lambda a, b: a - b, "@": lambda a, b: a @ b, "==": lambda a, b: a == b, "!=": lambda a, b: a != b}
# the NumPy function forms (C12: the operators and methods agree with numpy.equal / not_equal / isclose / allclose): array side, object side
NP_FORMS = {
    "numpy.equal": (lambda a, b: numpy.equal(a, b), lambda a, b: a.equal(b)),
    "numpy.not_equal": (lambda a, b: numpy.not_equal(a, b), lambda a, b: a.not_equal(b)),
    "numpy.isclose": (lambda a, b: numpy.isclose(a, b), lambda a, b: a.isclose(b)),
    "numpy.isclose(swapped)": (lambda a, b: numpy.isclose(b, a), lambda a, b: b.isclose(a)),
}


def binary_operands(R, s1, s2, pairing, shape, m1=False, m2=True):
    """(a, per-element object a, b, per-element object b) for a pairing nn / no / on of NumPy and object operands"""
    idxs = list(numpy.ndindex(shape))
    if pairing in ("nn", "no"):
        a, acols = np_operand(R, s1, "a", shape, m1)
        aobj = {i: obj_element(R, s1, acols, i, m1) for i in idxs}
    else:
        av = R.vec(s1, "a", momentum=m1, offaxis=True)
        _, ac = lanes.stored(av)
        a = lanes.build(lane(R)[0], s1, ac, m1)
        aobj = {i: a for i in idxs}
    if pairing in ("nn", "on"):
        b, bcols = np_operand(R, s2, "b", shape, m2)
        bobj = {i: obj_element(R, s2, bcols, i, m2) for i in idxs}
    else:
        bv = R.vec(s2, "b", momentum=m2, offaxis=True)
        _, bc = lanes.stored(bv)
        b = lanes.build(lane(R)[0], s2, bc, m2)
        bobj = {i: b for i in idxs}
    return a, aobj, b, bobj


def np_form_goals(R, a, aobj, b, bobj, shape):
    """numpy.equal / not_equal / isclose / allclose against the object-backend methods, element by element"""
    goals = []
    idxs = list(numpy.ndindex(shape))
    for label, (fa, fo) in NP_FORMS.items():
        try:
            rn = fa(a, b)
        except Exception as e:
            goals.append((f"{label}:raised", G.true(False, f"{type(e).__name__}: {str(e)[:100]}")))
            continue
        goals.append((f"{label}:shape", G.true(getattr(rn, "shape", None) == shape, f"{getattr(rn, 'shape', None)}")))
        for i in idxs:
            goals += compare(R, f"{label}[{i}]", rn, fo(aobj[i], bobj[i]), i)
    # numpy.allclose on one-element views (the reduction of a single symbolic truth value is that value)
    i0 = idxs[0]
    one = tuple(slice(0, 1) for _ in shape)
    a1 = a[one] if isinstance(a, numpy.ndarray) else a
    b1 = b[one] if isinstance(b, numpy.ndarray) else b
    for label, fa in (("numpy.allclose", lambda: numpy.allclose(a1, b1)), ("allclose", lambda: a1.allclose(b1)), ("numpy.allclose(swapped)", lambda: numpy.allclose(b1, a1))):
        if label == "allclose" and not isinstance(a1, numpy.ndarray):
            continue
        try:
            rn = fa()
        except core.SymbolicBranch:
            goals.append((f"{label}:outside-lane(reduction of symbolic truth values)", G.true(True)))
            continue
        except Exception as e:
            goals.append((f"{label}:raised", G.true(False, f"{type(e).__name__}: {str(e)[:100]}")))
            continue
        ref = bobj[i0].isclose(aobj[i0]) if "swapped" in label else aobj[i0].isclose(bobj[i0])
        goals.append((label, G.iff(rn, ref)))
    return goals


def f_np_forms(s1, s2, pairing, shape, m1=False, m2=True):
    def fn(R):
        a, aobj, b, bobj = binary_operands(R, s1, s2, pairing, shape, m1, m2)
        snaps = [(x, np_snapshot(x)) for x in (a, b) if isinstance(x, numpy.ndarray)]
        goals = np_form_goals(R, a, aobj, b, bobj, shape)
        for sym in ("==", "!="):
            rn = OPS[sym](a, b)
            for i in numpy.ndindex(shape):
                goals += compare(R, f"op{sym}[{i}]", rn, OPS[sym](aobj[i], bobj[i]), i)
        for x, s_ in snaps:
            goals.append(("frame:array-unmodified", G.true(np_snapshot(x) == s_)))
        return goals

    return fn


def f_binary(s1, s2, pairing, shape, m1=False, m2=True):
    d = len(s1) + 1

    def fn(R):
        from spec import model as spec

        goals = []
        idxs = list(numpy.ndindex(shape))
        a, aobj, b, bobj = binary_operands(R, s1, s2, pairing, shape, m1, m2)
        snaps = [(x, np_snapshot(x)) for x in (a, b) if isinstance(x, numpy.ndarray)]
        names = []
        for dd in range(2, d + 1):
            names += BINARY_CALLS[dd]
        if d != 3 and "cross" in names:
            names.remove("cross")
        for nm in names:
            try:
                rn = getattr(a, nm)(b)
            except core.SymbolicBranch:
                # lane limit: _toarrays casts a scalar that passes through (e.g. a stored tau) to float64
                goals.append((f"{nm}:outside-lane(scalar cast to float64)", G.true(True)))
                continue
            except Exception as e:
                goals.append((f"{nm}:raised", G.true(False, f"{type(e).__name__}: {str(e)[:100]}")))
                continue
            if not isinstance(rn, Vector) or isinstance(rn, numpy.ndarray):
                goals.append((f"{nm}:shape", G.true(getattr(rn, "shape", None) == shape, f"{getattr(rn, 'shape', None)}")))
                goals.append((f"{nm}:backend", G.true(isinstance(rn, numpy.ndarray), type(rn).__name__)))
            else:
                goals.append((f"{nm}:backend", G.true(False, f"object result {type(rn).__name__} for an array operand")))
                continue
            for i in idxs:
                goals += compare(R, f"{nm}[{i}]", rn, getattr(aobj[i], nm)(bobj[i]), i)
        for sym, op in OPS.items():
            try:
                rn = op(a, b)
            except Exception as e:
                goals.append((f"op{sym}:raised", G.true(False, f"{type(e).__name__}: {str(e)[:100]}")))
                continue
            for i in idxs:
                goals += compare(R, f"op{sym}[{i}]", rn, op(aobj[i], bobj[i]), i)
        goals += np_form_goals(R, a, aobj, b, bobj, shape)
        for x, s in snaps:
            goals.append(("frame:array-unmodified", G.true(np_snapshot(x) == s)))
        return goals

    return fn


def f_out_keyword(system, momentum):
    """ufuncs with out=: the output array is filled with the result, the operands are untouched"""
    d = len(system) + 1

    def fn(R):
        shape = (2,)
        a, acols = np_operand(R, system, "a", shape, momentum)
        b, bcols = np_operand(R, lanes.CART[d], "b", shape, False)
        k = R.real("k", "pos")
        goals = []
        idxs = list(numpy.ndindex(shape))
        for label, call, ref in (
            ("add", lambda o: numpy.add(a, b, out=o), lambda: a.add(b)),
            ("subtract", lambda o: numpy.subtract(a, b, out=o), lambda: a.subtract(b)),
            ("subtract-swapped", lambda o: numpy.subtract(b, a, out=o), lambda: b.subtract(a)),
            ("multiply", lambda o: numpy.multiply(a, k, out=o), lambda: a.scale(k)),
            ("true_divide", lambda o: numpy.true_divide(a, k, out=o), lambda: a.scale(1 / k)),
        ):
            expect = ref()
            names = expect.dtype.names
            ocols = []
            o = numpy.empty(shape, dtype=[(nm, object) for nm in names])
            for nm in names:
                for i in idxs:
                    o[nm][i] = R.real(f"o_{label}_{nm}_{i[0]}")
            o = o.view(type(expect))
            sa, sb = np_snapshot(a), np_snapshot(b)
            try:
                r = call((o,))
            except Exception as e:
                goals.append((f"{label}(out):raised", G.true(False, f"{type(e).__name__}: {str(e)[:100]}")))
                continue
            goals.append((f"{label}(out):operands-unmodified", G.true(np_snapshot(a) == sa and np_snapshot(b) == sb)))
            for nm in names:
                for i in idxs:
                    x, y = o[nm][i], expect[nm][i]
                    goals.append((f"{label}(out).{nm}[{i[0]}]", G.true(True) if x is y else G.eq(x, y)))
        return goals

    return fn


def f_scalar_arrays(system, shape):
    """scalar arguments given as arrays broadcast element by element"""
    d = len(system) + 1

    def fn(R):
        a, cols = np_operand(R, system, "a", shape, False)
        idxs = list(numpy.ndindex(shape))
        ks = numpy.empty(shape, dtype=object)
        angs = numpy.empty(shape, dtype=object)
        for i in idxs:
            ks[i] = R.real(f"k_{'_'.join(map(str, i))}", "nonneg")
            angs[i] = R.real(f"ang_{'_'.join(map(str, i))}", "angle")
        goals = []
        objs = {i: obj_element(R, system, cols, i, False) for i in idxs}
        rn = a.scale(ks)
        for i in idxs:
            goals += compare(R, f"scale(array)[{i}]", rn, objs[i].scale(ks[i]), i)
        rn = a.rotateZ(angs)
        for i in idxs:
            goals += compare(R, f"rotateZ(array)[{i}]", rn, objs[i].rotateZ(angs[i]), i)
        if d >= 3:
            rn = a.rotateX(angs)
            for i in idxs:
                goals += compare(R, f"rotateX(array)[{i}]", rn, objs[i].rotateX(angs[i]), i)
        rn = a * ks
        for i in idxs:
            goals += compare(R, f"mul(array)[{i}]", rn, objs[i] * ks[i], i)
        return goals

    return fn


def families(tier="quick"):
    fams = []
    NP = "vector.backends.numpy."

    def add(key, fn, functions):
        # no solver-pruned case splits during execution: both backends then build the same terms the same way
        fams.append(Family(f"{PID}/{key}", fn, defd=False, functions=functions, hard_s=400, structural=True))

    shapes = [(2,)] if tier != "thorough" else [(2,), (1,), (2, 2)]
    for d in (2, 3, 4):
        wr = NP + f"VectorNumpy{d}D._wrap_result"
        for si, s in enumerate(lanes.ALL_SYS[d]):
            n = lanes.sysname(s)
            for shape in shapes:
                for mom in (False, True):
                    add(f"unary/{n}/{'momentum' if mom else 'generic'}/shape={shape}", f_unary(s, mom, shape), [wr, NP + "_toarrays", NP + "_shape_of", NP + "_getitem", "vector._methods._handler_of"])
            add(f"scalar-arrays/{n}", f_scalar_arrays(s, (2,)), [wr, NP + "_toarrays"])
            add(f"out-keyword/{n}", f_out_keyword(s, si % 2 == 1), [NP + "VectorNumpy.__array_ufunc__"])
            allsys = lanes.ALL_SYS[d]
            seconds = dict.fromkeys([s, lanes.CART[d], allsys[(si * 5 + 1) % len(allsys)]])
            for s2 in seconds:
                for pairing in ("nn", "no", "on"):
                    add(f"binary/{pairing}/{n}|{lanes.sysname(s2)}", f_binary(s, s2, pairing, (2,)), [wr, NP + "VectorNumpy.__array_ufunc__", "vector._methods._handler_of", "vector._methods._flavor_of", "vector._methods._lib_of"])
    return fams
