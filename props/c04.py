"""C04 — coordinate conversions and dimension changes lose nothing (object backend)."""
from __future__ import annotations

import inspect

from symx import lanes
from symx import run as G
from symx.driver import Family
from spec import model as spec

from vector._methods import Vector

from . import laws

PID = "C04"
EXPLANATION = (
    "bounded SMT checking of the symbolically executed real code: all 40 to_<system>() spellings, to_Vector2D/3D/4D, to_2D/3D/4D and like() of the "
    "object backend are executed on z3-term vectors in all 20 source systems and both flavors; conversion to the stored system must return the "
    "stored coordinate objects themselves (identity, hence bit-for-bit); every conversion and every round trip to_S().to_T() is decided by z3 "
    "(QF_NRA) to denote the same vector; projections keep the retained stored coordinates as the same objects, embeddings keep all stored "
    "coordinates as the same objects and add exactly the keyword's object in the coordinate type the keyword names, or literal zero; conflicting "
    "keywords raise TypeError"
)
BOUNDS = {"semantics": "exact reals for value statements; object identity for 'unchanged / bit-for-bit'", "outside": "NumPy lane field placement is covered in C03; Awkward excluded"}

# target method -> (system tuple, momentum spelling?)
TARGETS = {}
for _az, _azn in (("xy", "xy"), ("rhophi", "rhophi")):
    TARGETS[f"to_{_azn}"] = ((_az,), False)
    for _l in ("z", "theta", "eta"):
        TARGETS[f"to_{_azn}{_l}"] = ((_az, _l), False)
        for _t in ("t", "tau"):
            TARGETS[f"to_{_azn}{_l}{_t}"] = ((_az, _l, _t), False)
for _az, _azn in (("xy", "pxpy"), ("rhophi", "ptphi")):
    TARGETS[f"to_{_azn}"] = ((_az,), True)
    for _l, _ln in (("z", "pz"), ("theta", "theta"), ("eta", "eta")):
        TARGETS[f"to_{_azn}{_ln}"] = ((_az, _l), True)
        for _t, _tn in (("t", "energy"), ("tau", "mass")):
            TARGETS[f"to_{_azn}{_ln}{_tn}"] = ((_az, _l, _t), True)

KW = {"z": "z", "theta": "theta", "eta": "eta", "t": "t", "tau": "tau"}
KW_M = {"z": "pz", "theta": "theta", "eta": "eta", "t": "energy", "tau": "mass"}


def _names(system):
    return list(lanes.AZ_NAMES[system[0]]) + list(system[1:])


def f_to(system, momentum, meth):
    tsys, mom_spelling = TARGETS[meth]
    d, dt = len(system) + 1, len(tsys) + 1

    def fn(R):
        lib = R.lib
        v = R.vec(system, "1", momentum=momentum, offaxis=True)
        c = spec.cart(lib, v)
        _, coords = lanes.stored(v)
        kwn = KW_M if mom_spelling else KW
        kwargs, kwvals = {}, {}
        # imputation keywords for the coordinates the source does not have
        for pos in range(max(d, 2), dt):
            nm = tsys[pos - 1]
            val = R.real(f"kw_{nm}")
            kwargs[kwn[nm]] = val
            kwvals[pos] = val
        if d == 4 and dt >= 4 and tsys[2] == "tau" and system[2] == "t":
            pass
        if d == 4 and "tau" in tsys and system[2] == "t":
            # tau derived from (t, mag): representable when the vector is timelike or lightlike with t >= 0
            R.assume(c[3] >= 0)
            R.assume(spec.tau2(lib, c) >= 0)
        r = getattr(v, meth)(**kwargs)
        rs, rc = lanes.stored(r)
        from vector._methods import Momentum

        goals = [("target-system", G.true(rs == tsys, f"{rs} vs {tsys}")), ("flavor-kept", G.true(isinstance(r, Momentum) == momentum, type(r).__name__))]
        # same coordinate group stored -> the very same objects
        src = _names(system)
        for i, nm in enumerate(_names(tsys)):
            if nm in src:
                goals.append((f"{nm}-is-stored-object", G.same(rc[i], coords[src.index(nm)])))
        # imputed coordinates: exactly the keyword's object
        for pos, val in kwvals.items():
            goals.append((f"imputed-{tsys[pos - 1]}", G.same(rc[pos], val)))
        # value: retained dimensions denote the same vector
        k = min(d, dt)
        cr = spec.decode(lib, rs[: k - 1] if k > 2 else rs[:1], rc[:k]) if k < dt else spec.decode(lib, rs, rc)
        for i, nm in enumerate("xyzt"[:k]):
            if nm == "t" and tsys[2] == "tau" and system[2] == "t":
                goals.append(("value.tau2", G.eq(rc[3] * rc[3], spec.tau2(lib, c))))
                goals.append(("value.tau>=0", G.ge(rc[3], 0)))
            else:
                goals.append((f"value.{nm}", G.eq(cr[i], c[i])))
        return goals

    return fn


def f_to_default(system, momentum, meth):
    """missing coordinates default to literal zero"""
    tsys, _ = TARGETS[meth]
    d, dt = len(system) + 1, len(tsys) + 1

    def fn(R):
        v = R.vec(system, "1", momentum=momentum, offaxis=True)
        r = getattr(v, meth)()
        rs, rc = lanes.stored(r)
        goals = [("target-system", G.true(rs == tsys))]
        for pos in range(max(d, 2), dt):
            z = rc[pos]
            goals.append((f"default-{tsys[pos - 1]}-is-zero", G.true(isinstance(z, (int, float)) and z == 0, repr(z))))
        return goals

    return fn


def f_roundtrip(system, m1, m2):
    def fn(R):
        lib = R.lib
        v = R.vec(system, "1", offaxis=True)
        c = spec.cart(lib, v)
        t1, t2 = TARGETS[m1][0], TARGETS[m2][0]
        if len(system) == 3 and (("tau" in t1) or ("tau" in t2)) and system[2] == "t":
            R.assume(c[3] >= 0)
            R.assume(spec.tau2(lib, c) >= 0)
        back = getattr(getattr(v, m1)(), m2)()
        goals = [("system", G.true(lanes.stored(back)[0] == t2))]
        goals += laws.same_vector(R, back, c, "roundtrip", ref_is_cart=True)
        return goals

    return fn


LKW = {"z": ("z", "z"), "pz": ("z", "z"), "theta": ("theta", "theta"), "eta": ("eta", "eta")}
TKW = {"t": "t", "e": "t", "E": "t", "energy": "t", "tau": "tau", "m": "tau", "M": "tau", "mass": "tau"}


def f_dimension_changes(system, momentum):
    d = len(system) + 1

    def fn(R):
        v = R.vec(system, "1", momentum=momentum)
        _, coords = lanes.stored(v)
        goals = []

        def retained(label, r, n_keep):
            rs, rc = lanes.stored(r)
            goals.append((f"{label}:system", G.true(rs[: n_keep - 1] == tuple(system)[: n_keep - 1], f"{rs}")))
            for i in range(n_keep):
                goals.append((f"{label}:coordinate[{i}]-same-object", G.same(rc[i], coords[i])))
            from vector._methods import Momentum

            goals.append((f"{label}:flavor", G.true(isinstance(r, Momentum) == momentum)))
            return rs, rc

        # projections
        for meth in ("to_Vector2D", "to_2D"):
            r = getattr(v, meth)()
            goals.append((f"{meth}:dimension", G.true(len(lanes.stored(r)[0]) == 1)))
            retained(meth, r, 2)
        if d >= 3:
            for meth in ("to_Vector3D", "to_3D"):
                r = getattr(v, meth)()
                goals.append((f"{meth}:dimension", G.true(len(lanes.stored(r)[0]) == 2)))
                retained(meth, r, 3)
        if d == 4:
            for meth in ("to_Vector4D", "to_4D"):
                r = getattr(v, meth)()
                goals.append((f"{meth}:identity", G.same(r, v)))
        # like()
        for dd in (2, 3, 4):
            other = R.build(lanes.CART[dd], [0.5] * dd)
            r = v.like(other)
            goals.append((f"like{dd}D:dimension", G.true(len(lanes.stored(r)[0]) + 1 == dd)))
            retained(f"like{dd}D", r, min(d, dd))
            rs, rc = lanes.stored(r)
            for pos in range(d, dd):
                goals.append((f"like{dd}D:imputed[{pos}]-zero", G.true(rc[pos] == 0 and rs[pos - 1] in ("z", "t"), f"{rs} {rc[pos]!r}")))
        # embeddings with each keyword
        if d == 2:
            for kw, (ltype, _) in LKW.items():
                val = R.real(f"l_{kw}")
                for meth in ("to_Vector3D", "to_3D"):
                    r = getattr(v, meth)(**{kw: val})
                    rs, rc = retained(f"{meth}({kw})", r, 2)
                    goals.append((f"{meth}({kw}):imputed", G.true(rs[1] == ltype and rc[2] is val, f"{rs}")))
                for tkw, ttype in TKW.items():
                    tval = R.real(f"t_{tkw}")
                    r = v.to_Vector4D(**{kw: val, tkw: tval})
                    rs, rc = retained(f"to_Vector4D({kw},{tkw})", r, 2)
                    goals.append((f"to_Vector4D({kw},{tkw}):imputed", G.true(rs[1] == ltype and rs[2] == ttype and rc[2] is val and rc[3] is tval, f"{rs}")))
            r = v.to_Vector3D()
            rs, rc = retained("to_Vector3D()", r, 2)
            goals.append(("to_Vector3D():zero", G.true(rs[1] == "z" and rc[2] == 0)))
            r = v.to_Vector4D()
            rs, rc = retained("to_Vector4D()", r, 2)
            goals.append(("to_Vector4D():zero", G.true(rs[1:] == ("z", "t") and rc[2] == 0 and rc[3] == 0)))
            r = v.to_4D(t=R.real("only_t"))
            rs, rc = retained("to_4D(t)", r, 2)
            goals.append(("to_4D(t):zero-z", G.true(rs[1:] == ("z", "t") and rc[2] == 0)))
            for bad in ({"z": 1.0, "eta": 2.0}, {"pz": 1.0, "theta": 2.0}, {"z": 1.0, "pz": 1.0}):
                goals.append((f"conflict{sorted(bad)}", G.true(_raises(lambda: v.to_Vector3D(**bad)))))
            for bad in ({"t": 1.0, "tau": 2.0}, {"E": 1.0, "mass": 2.0}, {"e": 1.0, "energy": 1.0}, {"z": 1.0, "theta": 1.0, "t": 1.0}):
                goals.append((f"conflict{sorted(bad)}", G.true(_raises(lambda: v.to_Vector4D(**bad)))))
        if d == 3:
            for tkw, ttype in TKW.items():
                tval = R.real(f"t_{tkw}")
                for meth in ("to_Vector4D", "to_4D"):
                    r = getattr(v, meth)(**{tkw: tval})
                    rs, rc = retained(f"{meth}({tkw})", r, 3)
                    goals.append((f"{meth}({tkw}):imputed", G.true(rs[2] == ttype and rc[3] is tval, f"{rs}")))
            r = v.to_Vector4D()
            rs, rc = retained("to_Vector4D()", r, 3)
            goals.append(("to_Vector4D():zero", G.true(rs[2] == "t" and rc[3] == 0)))
            for bad in ({"t": 1.0, "tau": 2.0}, {"M": 1.0, "m": 2.0}, {"energy": 1.0, "mass": 1.0}):
                goals.append((f"conflict{sorted(bad)}", G.true(_raises(lambda: v.to_Vector4D(**bad)))))
        return goals

    return fn


def _raises(thunk):
    try:
        thunk()
    except TypeError:
        return True
    except Exception:
        return False
    return False


def families(tier="quick"):
    fams = []
    M = "vector._methods."

    def add(key, fn, functions, defd=False):
        fams.append(Family(f"{PID}/{key}", fn, defd=defd, functions=functions))

    targets = list(TARGETS)
    for d in (2, 3, 4):
        for si, s in enumerate(lanes.ALL_SYS[d]):
            n = lanes.sysname(s)
            for mi, meth in enumerate(targets):
                mom = (mi + si) % 2 == 1
                add(f"to/{n}/{meth}", f_to(s, mom, meth), [M + f"Vector.{meth}", "vector.backends.object.VectorObject%dD._wrap_result" % d])
                if len(TARGETS[meth][0]) + 1 > d:
                    add(f"to-default/{n}/{meth}", f_to_default(s, mom, meth), [M + f"Vector.{meth}"])
            gen = [t for t in targets if not TARGETS[t][1] and len(TARGETS[t][0]) + 1 == d]
            for i, m1 in enumerate(gen):
                m2s = gen if tier == "thorough" else [gen[(i + si + 1) % len(gen)], f"to_{''.join(s)}" if f"to_{''.join(s)}" in TARGETS else gen[0]]
                for m2 in dict.fromkeys(m2s):
                    add(f"roundtrip/{n}/{m1}.{m2}", f_roundtrip(s, m1, m2), [M + f"Vector.{m1}", M + f"Vector.{m2}"])
            for mom in (False, True):
                add(f"dimension/{n}/{'momentum' if mom else 'generic'}", f_dimension_changes(s, mom), [M + "Vector2D.to_Vector3D", M + "Vector2D.to_Vector4D", M + "Vector3D.to_Vector2D", M + "Vector3D.to_Vector4D", M + "Vector4D.to_Vector2D", M + "Vector4D.to_Vector3D", M + "Vector.like"])
    return fams
