"""C08 — SymPy expressions agree with the numeric backends.

SymPy lane: the real VectorSympy*D / MomentumSympy*D classes on SymPy symbols; every result
expression is evaluated on the *same* symbolic scalars the object-lane vector holds (a structural
evaluator maps sin/cos/sqrt/exp/log/atan2/... onto the term-building lib) and z3 decides equality
with the object-backend term on the regular domain the property names.
"""
from __future__ import annotations

import fractions

import sympy

from symx import core, lanes
from symx import run as G
from symx.driver import Family
from spec import model as spec

import vector
from vector._methods import Vector

from . import c02

PID = "C08"
EXPLANATION = (
    "bounded SMT checking across two backends: each property / method is executed by the real SymPy backend on SymPy symbols and by the object "
    "backend on z3-term scalars; the SymPy result expression is evaluated structurally on the same z3-term scalars (sin, cos, tan, sqrt, exp, log, "
    "atan2, atan, acos, asinh, sinh, cosh, Abs, Mod, relations mapped onto the axiomatised lib) and z3 (QF_NRA) decides that it equals the object "
    "backend's term for all points of the regular domain (timelike, forward-pointing, off-axis), where the clamps, NaN replacements and copysign "
    "the symbolic backend drops are identities"
)
BOUNDS = {"domain": "regular: off-axis, t > 0, t^2 > mag^2, tau >= 0 (as the property states)", "outside": "structural == / != of SymPy expressions (not a numeric statement)"}


class NoEval(core.Unsupported):
    pass


def sym_eval(e, env, lib):
    """evaluate a SymPy expression on scalars of `lib` (works for the symbolic and the concrete lib)"""
    if isinstance(e, (bool,)) or e is sympy.true or e is sympy.false:
        return bool(e)
    if isinstance(e, (int, float)):
        return e
    if e.is_Symbol:
        return env[e.name]
    if e.is_Integer:
        return int(e)
    if e.is_Rational:
        return fractions.Fraction(int(e.p), int(e.q))
    if e.is_Float:
        return float(e)
    if e is sympy.pi:
        return lib.pi
    f = e.func
    a = e.args
    ev = lambda x: sym_eval(x, env, lib)
    if f is sympy.Add:
        r = ev(a[0])
        for x in a[1:]:
            r = r + ev(x)
        return r
    if f is sympy.Mul:
        num, den = [], []
        for x in a:
            if x.is_Pow and x.exp.is_number and x.exp.is_negative:
                den.append(sympy.Pow(x.base, -x.exp))
            else:
                num.append(x)
        r = ev(num[0]) if num else 1
        for x in num[1:]:
            r = r * ev(x)
        for x in den:
            r = r / ev(x)
        return r
    if f is sympy.Pow:
        b, p = a
        if not p.is_number:
            raise NoEval(f"symbolic exponent {p}")
        bv = ev(b)
        if p.is_Integer:
            return bv ** int(p)
        q = fractions.Fraction(str(sympy.nsimplify(p, rational=True))) if not p.is_Rational else fractions.Fraction(int(p.p), int(p.q))
        if q.denominator in (2, 4, 3, 6):
            root = lib.sqrt(bv) if q.denominator == 2 else bv ** (1.0 / q.denominator)
            if q.numerator < 0:
                return 1 / root ** (-q.numerator)
            return root ** q.numerator
        raise NoEval(f"power {p}")
    table = {
        sympy.sin: lib.sin, sympy.cos: lib.cos, sympy.tan: lib.tan, sympy.exp: lib.exp, sympy.log: lib.log,
        sympy.atan: lib.arctan, sympy.acos: lib.arccos, sympy.asinh: lib.arcsinh, sympy.sinh: lib.sinh, sympy.cosh: lib.cosh,
        sympy.Abs: lib.absolute, sympy.sign: lib.sign, sympy.asin: getattr(lib, "arcsin", None), sympy.tanh: getattr(lib, "tanh", None),
    }
    if f in table and table[f] is not None:
        return table[f](ev(a[0]))
    if f is sympy.atan2:
        return lib.arctan2(ev(a[0]), ev(a[1]))
    if f is sympy.Mod:
        return ev(a[0]) % ev(a[1])
    if f is sympy.Max:
        r = ev(a[0])
        for x in a[1:]:
            r = lib.maximum(r, ev(x))
        return r
    if f is sympy.Min:
        r = ev(a[0])
        for x in a[1:]:
            r = lib.minimum(r, ev(x))
        return r
    rel = {sympy.Eq: lambda x, y: x == y, sympy.Ne: lambda x, y: x != y, sympy.Lt: lambda x, y: x < y, sympy.Le: lambda x, y: x <= y,
           sympy.Gt: lambda x, y: x > y, sympy.Ge: lambda x, y: x >= y,
           sympy.StrictLessThan: lambda x, y: x < y, sympy.StrictGreaterThan: lambda x, y: x > y, sympy.LessThan: lambda x, y: x <= y, sympy.GreaterThan: lambda x, y: x >= y}
    if f in rel:
        return rel[f](ev(a[0]), ev(a[1]))
    if f is sympy.And:
        r = ev(a[0])
        for x in a[1:]:
            r = r & ev(x)
        return r
    if f is sympy.Or:
        r = ev(a[0])
        for x in a[1:]:
            r = r | ev(x)
        return r
    if f is sympy.Not:
        return ~ev(a[0])
    raise NoEval(f"SymPy function {f}")


def _sympy_vec(system, momentum, tag="1"):
    names = list(lanes.AZ_NAMES[system[0]]) + list(system[1:])
    syms = {n: sympy.Symbol(f"{n}{tag}", real=True) for n in names}
    cls = {(2, False): vector.VectorSympy2D, (2, True): vector.MomentumSympy2D, (3, False): vector.VectorSympy3D, (3, True): vector.MomentumSympy3D,
           (4, False): vector.VectorSympy4D, (4, True): vector.MomentumSympy4D}[(len(system) + 1, momentum)]
    return cls(**{n: syms[n] for n in names}), names


def _env(R, v, names, tag="1"):
    _, coords = lanes.stored(v)
    return {f"{n}{tag}": c for n, c in zip(names, coords)}


def _regular(R, lib, v):
    c = spec.cart(lib, v)
    if len(c) == 4:
        R.assume(c[3] > 0)
        R.assume(spec.tau2(lib, c) > 0)
    if len(c) >= 3:
        R.assume((c[0] != 0) | (c[1] != 0))
    return c


def _sympy_stored(w):
    a = w.azimuthal
    system = ["xy" if hasattr(a, "x") and type(a).__name__.endswith("XY") else "rhophi"]
    coords = list(a.elements)
    if hasattr(w, "longitudinal"):
        l = w.longitudinal
        system.append({"LongitudinalSympyZ": "z", "LongitudinalSympyTheta": "theta", "LongitudinalSympyEta": "eta"}[type(l).__name__])
        coords += list(l.elements)
    if hasattr(w, "temporal"):
        t = w.temporal
        system.append({"TemporalSympyT": "t", "TemporalSympyTau": "tau"}[type(t).__name__])
        coords += list(t.elements)
    return tuple(system), coords


def compare(R, label, se, ob, env, kind="plain"):
    lib = R.lib
    if isinstance(ob, Vector):
        if not isinstance(se, Vector):
            return [(f"{label}:kind", G.true(False, f"sympy gave {type(se).__name__}"))]
        ss, sc = _sympy_stored(se)
        so, oc = lanes.stored(ob)
        goals = [(f"{label}:system", G.true(ss == so, f"{ss} vs {so}"))]
        if ss == so:
            for nm, x, y in zip(list(lanes.AZ_NAMES[so[0]]) + list(so[1:]), sc, oc):
                val = sym_eval(sympy.sympify(x), env, lib)
                goals.append((f"{label}.{nm}", c02.cmp_scalar("angle" if nm in ("phi", "theta") else "log" if nm == "eta" else "plain", val, y)))
        return goals
    val = sym_eval(sympy.sympify(se), env, lib)
    return [(label, c02.cmp_scalar(kind, val, ob))]


SCALARS = {
    2: [("x", "plain"), ("y", "plain"), ("rho", "plain"), ("rho2", "plain"), ("phi", "angle")],
    3: [("z", "plain"), ("theta", "angle"), ("eta", "log"), ("costheta", "plain"), ("cottheta", "plain"), ("mag", "plain"), ("mag2", "plain")],
    4: [("t", "plain"), ("t2", "plain"), ("tau", "plain"), ("tau2", "plain"), ("beta", "plain"), ("gamma", "plain"), ("rapidity", "log")],
}
MOM_SCALARS = {2: [("pt", "plain"), ("px", "plain")], 3: [("pz", "plain"), ("p", "plain"), ("pseudorapidity", "log")], 4: [("E", "plain"), ("mass", "plain"), ("Et", "plain"), ("Mt", "plain"), ("Et2", "plain"), ("Mt2", "plain")]}


def f_unary(system, momentum):
    d = len(system) + 1

    def fn(R):
        lib = R.lib
        v = R.vec(system, "1", momentum=momentum, offaxis=True)
        _regular(R, lib, v)
        sv, names = _sympy_vec(system, momentum)
        env = _env(R, v, names)
        # the symbolic backend needs a numeric scale factor in polar systems (numpy.sign of a Symbol is undecidable)
        k = fractions.Fraction(3, 2)
        ang = R.real("ang", "angle")
        ks, angs = sympy.Rational(3, 2), sympy.Symbol("ang", real=True)
        env.update({"ang": ang})
        goals = []
        props = []
        for dd in range(2, d + 1):
            props += SCALARS[dd] + (MOM_SCALARS[dd] if momentum else [])
        for p, kind in props:
            goals += compare(R, p, getattr(sv, p), getattr(v, p), env, kind)
        calls = [("unit", lambda w, K, A: w.unit()), ("scale", lambda w, K, A: w.scale(K)), ("rotateZ", lambda w, K, A: w.rotateZ(A)), ("to_xy", lambda w, K, A: w.to_xy()), ("to_rhophi", lambda w, K, A: w.to_rhophi())]
        if d >= 3:
            calls += [("rotateX", lambda w, K, A: w.rotateX(A)), ("rotateY", lambda w, K, A: w.rotateY(A)), ("to_xyz", lambda w, K, A: w.to_xyz()), ("to_rhophieta", lambda w, K, A: w.to_rhophieta()), ("to_xytheta", lambda w, K, A: w.to_xytheta()),
                      ("rotate_euler", lambda w, K, A: w.rotate_euler(A, A, A, "zyx")), ("scale(-1/2)", lambda w, K, A: w.scale(-K / 3))]
        if d == 4:
            b = R.real("b", "beta")
            bs = sympy.Symbol("b", real=True)
            env["b"] = b
            tolv = R.real("tolv", "tol")
            env["tolv"] = tolv
            tols = sympy.Symbol("tolv", real=True)
            calls += [("to_xyzt", lambda w, K, A: w.to_xyzt()), ("to_rhophietatau", lambda w, K, A: w.to_rhophietatau()), ("to_beta3", lambda w, K, A: w.to_beta3()),
                      ("boostX", lambda w, K, A: w.boostX(beta=bs if isinstance(w, vector.backends.sympy.VectorSympy) else b)),
                      ("boostZ", lambda w, K, A: w.boostZ(beta=bs if isinstance(w, vector.backends.sympy.VectorSympy) else b)),
                      ("is_timelike", lambda w, K, A: w.is_timelike(tols if isinstance(w, vector.backends.sympy.VectorSympy) else tolv)), ("is_lightlike", lambda w, K, A: w.is_lightlike(tols if isinstance(w, vector.backends.sympy.VectorSympy) else tolv)),
                      ("is_spacelike", lambda w, K, A: w.is_spacelike(tols if isinstance(w, vector.backends.sympy.VectorSympy) else tolv))]
        for label, call in calls:
            try:
                se = call(sv, ks, angs)
            except Exception as e:
                goals.append((f"{label}:sympy-raised", G.true(False, f"{type(e).__name__}: {str(e)[:100]}")))
                continue
            ob = call(v, k, ang)
            kind = "bool" if label.startswith("is_") else "plain"
            goals += compare(R, label, se, ob, env, kind)
        return goals

    return fn


def f_binary(s1, s2, group="all"):
    d = len(s1) + 1

    def fn(R):
        lib = R.lib
        a = R.vec(s1, "1", offaxis=True)
        b = R.vec(s2, "2", momentum=True, offaxis=True)
        _regular(R, lib, a)
        cb = _regular(R, lib, b)
        sa, n1 = _sympy_vec(s1, False, "1")
        sb, n2 = _sympy_vec(s2, True, "2")
        env = _env(R, a, n1, "1")
        env.update(_env(R, b, n2, "2"))
        tol = R.real("tol", "tol")
        env["tol"] = tol
        tols = sympy.Symbol("tol", real=True)
        goals = []
        calls = [("add", "plain", lambda x, y, T: x.add(y)), ("subtract", "plain", lambda x, y, T: x.subtract(y)), ("dot", "plain", lambda x, y, T: x.dot(y)), ("deltaphi", "angle", lambda x, y, T: x.deltaphi(y)),
                 ("is_parallel", "bool", lambda x, y, T: x.is_parallel(y, T)), ("is_antiparallel", "bool", lambda x, y, T: x.is_antiparallel(y, T)), ("is_perpendicular", "bool", lambda x, y, T: x.is_perpendicular(y, T))]
        if d >= 3:
            calls += [("deltaeta", "log", lambda x, y, T: x.deltaeta(y)), ("deltaR2", "plain", lambda x, y, T: x.deltaR2(y)), ("deltaangle", "angle", lambda x, y, T: x.deltaangle(y))]
        if d == 3:
            calls += [("cross", "plain", lambda x, y, T: x.cross(y))]
        if d == 4:
            calls += [("boost_p4", "plain", lambda x, y, T: x.boost_p4(y))]
        groups = {"arith": ("add", "subtract", "dot", "deltaphi", "cross"), "directional": ("is_parallel", "is_antiparallel", "is_perpendicular"),
                  "delta": ("deltaeta", "deltaR2"), "deltaangle": ("deltaangle",), "boost": ("boost_p4",)}
        if group != "all":
            calls = [c for c in calls if c[0] in groups.get(group, ())]
        for label, kind, call in calls:
            try:
                se = call(sa, sb, tols)
            except Exception as e:
                goals.append((f"{label}:sympy-raised", G.true(False, f"{type(e).__name__}: {str(e)[:100]}")))
                continue
            ob = call(a, b, tol)
            if isinstance(ob, Vector):
                # the result must itself be in the regular domain (no sign convention / clamp involved)
                _regular(R, lib, ob)
                so_, oc_ = lanes.stored(ob)
                if len(so_) == 3 and so_[2] == "tau":
                    R.assume(oc_[3] > 0)  # a negative stored tau is the numeric backends' encoding of a spacelike result
            goals += compare(R, label, se, ob, env, kind)
        if group in ("all", "isclose"):
            # isclose of the symbolic backend is exact equality of every compared coordinate
            se = sa.isclose(sb)
            goals += compare(R, "isclose-is-equal", se, a.equal(b), env, "bool")
        return goals

    return fn


def f_inplace(system):
    """the SymPy backend's own in-place operators (its copy of _replace_data): afterwards every *stored*
    coordinate is the expression the functional result gives for that coordinate, object identity kept"""
    d = len(system) + 1

    def fn(R):
        names = list(lanes.AZ_NAMES[system[0]]) + list(system[1:])
        goals = []
        ks = sympy.Rational(3, 2)
        for label in ("+=", "-=", "*=", "/="):
            sv, n1 = _sympy_vec(system, False, "1")
            sw, n2 = _sympy_vec(lanes.CART[d], True, "2")
            ident = id(sv)
            if label == "+=":
                func = sv + sw
                sv += sw
            elif label == "-=":
                func = sv - sw
                sv -= sw
            elif label == "*=":
                func = sv * ks
                sv *= ks
            else:
                func = sv / ks
                sv /= ks
            goals.append((f"{label}:identity", G.true(id(sv) == ident)))
            ss, sc = _sympy_stored(sv)
            goals.append((f"{label}:system-kept", G.true(ss == tuple(system), str(ss))))
            for nm, got in zip(names, sc):
                want = getattr(func, nm)
                same = (got == want) or sympy.simplify(sympy.sympify(got) - sympy.sympify(want)) == 0
                goals.append((f"{label}.{nm}", G.true(bool(same), f"{got} vs {want}"[:200])))
        return goals

    return fn


def families(tier="quick"):
    fams = []
    SB = "vector.backends.sympy."

    def add(key, fn, functions):
        fams.append(Family(f"{PID}/{key}", fn, defd=False, functions=functions, hard_s=300))

    for d in (2, 3, 4):
        allsys = lanes.ALL_SYS[d]
        for si, s in enumerate(allsys):
            n = lanes.sysname(s)
            for mom in (False, True):
                add(f"unary/{n}/{'momentum' if mom else 'generic'}", f_unary(s, mom), [SB + f"VectorSympy{d}D._wrap_result", "vector._lib.SympyLib", "vector._compute"])
            add(f"inplace/{n}", f_inplace(s), [SB + "_replace_data", SB + "VectorSympy.__iadd__", SB + "VectorSympy.__imul__"])
            seconds = dict.fromkeys([s, lanes.CART[d], allsys[(si * 5 + 1) % len(allsys)]]) if tier != "thorough" else allsys
            for s2 in seconds:
                for grp in ("arith", "directional", "delta", "deltaangle", "isclose") + (("boost",) if d == 4 else ()):
                    if grp in ("delta", "deltaangle") and d == 2:
                        continue
                    add(f"binary-{grp}/{n}|{lanes.sysname(s2)}", f_binary(s, s2, grp), [SB + f"VectorSympy{d}D._wrap_result", "vector._lib.SympyLib", "vector._compute"])
    return fams
