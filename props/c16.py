"""C16 — operations never modify their operands (object backend; NumPy lane: see c03/c17).

Every obligation of C02 (all public accessors and operations), C04 (conversions, projections,
embeddings, like), C05 (the result-type lattice, including the calls that raise), C09-C12 (laws,
comparisons) executes the real code on symbolic operands; here the same executions are repeated in
structural mode and only the frame condition is kept: class, coordinate containers and the identity
of every stored coordinate object of every operand are the same after the call, whether it
returned or raised.  Operands are symbolic and the run is single-path, so the verdict holds for all
values.
"""
from __future__ import annotations

from symx import run as G
from symx.driver import Family

PID = "C16"
EXPLANATION = (
    "symbolic execution of the real code with a frame condition: every public property, method, operator, conversion and comparison of the object "
    "backend is called on z3-term operands in every coordinate system (the call shapes of C02, C04, C05, C09-C12, including calls that raise); "
    "before and after each run the class, the coordinate containers and the identity of every stored coordinate object of every operand are "
    "compared; the run is single-path (a branch on a symbolic value aborts it), so the verdict is independent of operand values; no SMT query is "
    "needed for the frame condition itself (object identity), the solver's part is the value-independence argument"
)
BOUNDS = {"backends": "object backend and NumPy lane (structured arrays of dtype object holding symbolic scalars; kernels see an element-wise container with ndarray in-place semantics); float64 buffer aliasing outside kernels and Awkward are not reachable"}
TRUSTED = ["single-path symbolic execution (symx.core: SymbolicBranch on any value-dependent branch)", "snapshot = class + ids of coordinate containers and stored objects"]


def _wrap(fn):
    def g(R):
        try:
            goals = fn(R)
            n = len(goals)
        except (G.OutOfDomain,):
            raise
        return [("executed", G.true(True, f"{n} goals of the source obligation discarded"))]

    return g


def _wrap_arrays(fn):
    """NumPy lane: keep the frame goals of the array operands (snapshot of class, dtype, shape and the
    identity of every element of every field before and after the calls)"""

    def g(R):
        goals = fn(R)
        kept = [(l, x) for l, x in goals if l.startswith("frame:") or "operands-unmodified" in l]
        return kept + [("executed", G.true(True, f"{len(goals) - len(kept)} value goals of the source obligation discarded"))]

    return g


def families(tier="quick"):
    from . import c02, c03, c04, c05, c09, c10, c11, c12, c13, c17

    fams = []
    for mod in (c02, c04, c05, c10, c11, c12, c13, c09):
        for f in mod.families(tier):
            if mod is c05 and f.key.startswith("C05/dispatch-maps"):
                continue
            if mod is c12 and "/float64/" in f.key:
                continue
            if "/ieee-guards/" in f.key or "/numpy-forms/" in f.key:
                continue  # abstract IEEE values are not operands of the frame condition; the NumPy forms keep their own frame goals (C03 lane below)
            fams.append(Family(f"{PID}/{f.key}", _wrap(f.fn), defd=False, functions=f.functions, structural=True, hard_s=300))
    for mod in (c03, c17):
        for f in mod.families(tier):
            if f.key.endswith("/empty"):
                continue
            fams.append(Family(f"{PID}/{f.key}", _wrap_arrays(f.fn), defd=False, functions=f.functions, structural=True, hard_s=300))
    return fams
