"""C10 — rotations are proper rotations and their spellings agree.

The public rotation methods are executed on symbolic object vectors; each law is decided by z3
(polynomial identities modulo c^2 + s^2 = 1 for every angle atom, normal-form preprocessing).
"""
from __future__ import annotations

from symx import lanes
from symx import run as G
from symx.driver import Family
from spec import model as spec

from . import laws

PID = "C10"
EXPLANATION = (
    "bounded SMT checking of the symbolically executed real code: rotateX/Y/Z, rotate_axis, rotate_euler (12 orders, both letter cases), "
    "rotate_nautical and rotate_quaternion of the object backend are executed on z3-term vectors in every coordinate system; z3 (QF_NRA, "
    "polynomial identities modulo cos^2+sin^2=1) decides preservation of lengths, dot products and handedness, pass-through of time / proper "
    "time, additivity about a fixed axis, inverse by the opposite angle and the documented equalities between spellings"
)
BOUNDS = {
    "semantics": "exact reals; all angles (no range restriction)",
    "nesting": "two successive public rotations are executed directly (the intermediate vector is whatever the first call returned)",
}
K = "vector._compute."

ROTS = {
    "rotateZ": (2, lambda v, a: v.rotateZ(a[0]), 1),
    "rotateX": (3, lambda v, a: v.rotateX(a[0]), 1),
    "rotateY": (3, lambda v, a: v.rotateY(a[0]), 1),
    "rotate_euler:zxz": (3, lambda v, a: v.rotate_euler(a[0], a[1], a[2], "zxz"), 3),
    "rotate_euler:xyz": (3, lambda v, a: v.rotate_euler(a[0], a[1], a[2], "xyz"), 3),
    "rotate_nautical": (3, lambda v, a: v.rotate_nautical(a[0], a[1], a[2]), 3),
}


def _angles(R, n, tag="a"):
    return [R.real(f"{tag}{i}", "angle") for i in range(n)]


def f_isometry(name, system, s2):
    dmin, call, nang = ROTS[name]

    def fn(R):
        lib = R.lib
        a = _angles(R, nang)
        v = R.vec(system, "1")
        w = R.vec(s2, "2")
        cv, cw = spec.cart(lib, v), spec.cart(lib, w)
        rv, rw = call(v, a), call(w, a)
        n = 2 if name == "rotateZ" and len(system) == 1 else 3
        crv, crw = spec.cart(lib, rv), spec.cart(lib, rw)
        goals = [
            ("length", G.eq(laws.mdot(crv[:n], crv[:n]), laws.mdot(cv[:n], cv[:n]))),
            ("dot", G.eq(laws.mdot(crv[:n], crw[:n]), laws.mdot(cv[:n], cw[:n]))),
            ("class", G.true(type(rv) is type(v), "result class")),
        ]
        if len(system) == 3:
            goals.append(("temporal-untouched", G.same(rv.temporal.elements[0], v.temporal.elements[0])))
            goals.append(("temporal-type", G.true(type(rv.temporal) is type(v.temporal))))
        if len(system) >= 2 and n == 2:
            goals.append(("longitudinal-untouched", G.same(rv.longitudinal.elements[0], v.longitudinal.elements[0])))
        return goals

    return fn


def f_handedness(name):
    """R e1 . (R e2 x R e3) = +1 on the Cartesian basis (with lengths preserved this is det R = +1)"""
    dmin, call, nang = ROTS[name]

    def fn(R):
        lib = R.lib
        a = _angles(R, nang)
        es = [R.build(("xy", "z"), [1, 0, 0]), R.build(("xy", "z"), [0, 1, 0]), R.build(("xy", "z"), [0, 0, 1])]
        r = [spec.cart(lib, call(e, a)) for e in es]
        det = laws.mdot(r[0], spec.cross(lib, r[1], r[2]))
        return [("det=+1", G.eq(det, 1))]

    return fn


def f_axis_handedness():
    def fn(R):
        lib = R.lib
        ang = R.real("angle", "angle")
        ax = R.vec(("xy", "z"), "n")
        laws.nonzero(R, spec.cart(lib, ax))
        es = [R.build(("xy", "z"), [1, 0, 0]), R.build(("xy", "z"), [0, 1, 0]), R.build(("xy", "z"), [0, 0, 1])]
        r = [spec.cart(lib, e.rotate_axis(ax, ang)) for e in es]
        return [("det=+1", G.eq(laws.mdot(r[0], spec.cross(lib, r[1], r[2])), 1))]

    return fn


def f_additive(which, system):
    def fn(R):
        lib = R.lib
        a, b = R.real("a", "angle"), R.real("b", "angle")
        v = R.vec(system, "1")
        m = getattr(v, which)
        two = getattr(m(a), which)(b)
        one = getattr(v, which)(a + b)
        back = getattr(m(a), which)(-a)
        goals = laws.same_vector(R, two, one, "additive")
        goals += laws.same_vector(R, back, v, "inverse")
        return goals

    return fn


def f_axis_spellings(system):
    def fn(R):
        lib = R.lib
        ang = R.real("angle", "angle")
        k = R.real("k", "pos")
        v = R.vec(system, "1")
        goals = []
        for axis, meth in (((1, 0, 0), "rotateX"), ((0, 1, 0), "rotateY"), ((0, 0, 1), "rotateZ")):
            ax = R.build(("xy", "z"), list(axis))
            goals += laws.same_vector(R, v.rotate_axis(ax, ang), getattr(v, meth)(ang), f"axis-{meth}")
            axk = R.build(("xy", "z"), [k * c for c in axis])
            goals += laws.same_vector(R, v.rotate_axis(axk, ang), getattr(v, meth)(ang), f"scaled-axis-{meth}")
        return goals

    return fn


def f_axis_length(system, axsys):
    def fn(R):
        lib = R.lib
        ang = R.real("angle", "angle")
        k = R.real("k", "pos")
        v = R.vec(system, "1")
        ax = R.vec(axsys, "n")
        ac = spec.cart(lib, ax)
        laws.nonzero(R, ac)
        axk = R.build(("xy", "z"), [k * c for c in ac])
        return laws.same_vector(R, v.rotate_axis(axk, ang), v.rotate_axis(ax, ang), "axis-length")

    return fn


def f_quaternion(system):
    def fn(R):
        lib = R.lib
        ang = R.real("angle", "angle")
        v = R.vec(system, "1")
        ax = R.vec(("xy", "z"), "n")
        ac = spec.cart(lib, ax)
        R.assume(ac[0] * ac[0] + ac[1] * ac[1] + ac[2] * ac[2] == 1)
        h = ang / 2
        ch, sh = lib.cos(h), lib.sin(h)
        got = v.rotate_quaternion(ch, ac[0] * sh, ac[1] * sh, ac[2] * sh)
        return laws.same_vector(R, got, v.rotate_axis(ax, ang), "quaternion")

    return fn


def f_euler_product(order, system):
    """rotate_euler(phi, theta, psi, 'abc') = R_a(-psi) . R_b(-theta) . R_c(-phi) through the public axis rotations"""

    def fn(R):
        p, t, s = R.real("ephi", "angle"), R.real("etheta", "angle"), R.real("epsi", "angle")
        v = R.vec(system, "1")
        got = v.rotate_euler(p, t, s, order)
        o = order.lower()
        meth = {"x": "rotateX", "y": "rotateY", "z": "rotateZ"}
        w = getattr(v, meth[o[2]])(-p)
        w = getattr(w, meth[o[1]])(-t)
        w = getattr(w, meth[o[0]])(-s)
        return laws.same_vector(R, got, w, "euler")

    return fn


def f_nautical(system):
    def fn(R):
        yaw, pitch, roll = R.real("yaw", "angle"), R.real("pitch", "angle"), R.real("roll", "angle")
        v = R.vec(system, "1")
        return laws.same_vector(R, v.rotate_nautical(yaw, pitch, roll), v.rotate_euler(roll, pitch, yaw, "zyx"), "nautical")

    return fn


def families(tier="quick"):
    fams = []

    def add(key, fn, functions):
        fams.append(Family(f"{PID}/{key}", fn, defd=False, functions=functions))

    orders = ["xzx", "xyx", "yxy", "yzy", "zyz", "zxz", "xzy", "xyz", "yxz", "yzx", "zyx", "zxy"]
    for d in (2, 3, 4):
        for si, s in enumerate(lanes.ALL_SYS[d]):
            n = lanes.sysname(s)
            s2 = lanes.CART[d]
            for name, (dmin, call, nang) in ROTS.items():
                if d < dmin:
                    continue
                add(f"isometry/{name}/{n}", f_isometry(name, s, s2), [K + ("planar.rotateZ" if name == "rotateZ" else "spatial." + name.split(":")[0].replace("rotate_nautical", "rotate_euler")), "vector._methods"])
            add(f"additive/rotateZ/{n}", f_additive("rotateZ", s), [K + "planar.rotateZ"])
            if d >= 3:
                add(f"additive/rotateX/{n}", f_additive("rotateX", s), [K + "spatial.rotateX"])
                add(f"additive/rotateY/{n}", f_additive("rotateY", s), [K + "spatial.rotateY"])
                add(f"axis-spellings/{n}", f_axis_spellings(s), [K + "spatial.rotate_axis", K + "spatial.rotateX", K + "spatial.rotateY", K + "planar.rotateZ"])
                add(f"axis-length/{n}|{lanes.sysname(lanes.SYS3[si % 6])}", f_axis_length(s, lanes.SYS3[si % 6]), [K + "spatial.rotate_axis"])
                add(f"quaternion/{n}", f_quaternion(s), [K + "spatial.rotate_quaternion", K + "spatial.rotate_axis"])
                add(f"nautical/{n}", f_nautical(s), ["vector._methods.Spatial.rotate_nautical", K + "spatial.rotate_euler"])
                for oi, o in enumerate(orders):
                    if s == ("xy", "z") or (tier == "thorough") or (oi + si) % 6 == 0:
                        oo = o if (oi + si) % 2 == 0 else o.upper()
                        add(f"euler-product:{oo}/{n}", f_euler_product(oo, s), [K + "spatial.rotate_euler", "vector._methods.Spatial.rotate_euler"])
    for name in ROTS:
        if ROTS[name][0] == 3 or name == "rotateZ":
            add(f"handedness/{name}", f_handedness(name), ["vector._compute.spatial." + name.split(":")[0].replace("rotate_nautical", "rotate_euler") if name != "rotateZ" else K + "planar.rotateZ"])
    add("handedness/rotate_axis", f_axis_handedness(), [K + "spatial.rotate_axis"])
    return fams
