"""C06 — constructors accept the documented coordinate sets and store them verbatim.

Forking lane: the symbolic input is the set of keyword names (presence booleans p_name for the 19
recognised names plus one foreign name, at most B of them true).  Every path of the real
constructors over these booleans is executed (the constructors branch only on name membership);
for each path z3 decides `path condition /\\ outcome != Spec(presence)` where Spec is the
documented grammar written as a z3 formula over the presence booleans.  Values are symbolic
scalars (any real) and are compared by identity ("stored verbatim").
"""
from __future__ import annotations

import itertools

import z3

from symx import lanes
from symx import run as G
from symx.driver import Family

from vector._methods import _coordinate_order

PID = "C06"
EXPLANATION = (
    "path-exhaustive symbolic execution of the real constructors over name sets: presence booleans for the 19 recognised coordinate names plus one "
    "foreign name (at most 5 true; 6 for vector.obj in the thorough tier); each feasible path of vector.obj, VectorObject2D/3D/4D, "
    "MomentumObject2D/3D/4D, vector.array and awkward_constructors._check_names is executed with symbolic values and z3 decides that the outcome "
    "(accept/reject, dimension, flavor, coordinate classes, which supplied value is stored where) equals the documented grammar encoded as a z3 "
    "formula over the presence booleans; value kinds (int, float, numpy scalars accepted; bool, str, None, complex rejected) are a second, "
    "enumerated dimension"
)
BOUNDS = {"names": "subsets of at most 5 of 20 names (6 for vector.obj in the thorough tier); two keyword orders for the class constructors (all constructors in the thorough tier)", "outside": "ak.zip / vector.Array / vector.zip beyond _check_names (Awkward C++ layouts)"}
TRUSTED = ["z3 5.1.0 (propositional + pseudo-boolean)", "the documented grammar encoded in props/c06.py::Spec"]

UNIVERSE = list(_coordinate_order) + ["charge"]
GENERIC = {
    "x": ("x", "px"),
    "y": ("y", "py"),
    "rho": ("rho", "pt"),
    "phi": ("phi",),
    "z": ("z", "pz"),
    "theta": ("theta",),
    "eta": ("eta",),
    "t": ("t", "E", "e", "energy"),
    "tau": ("tau", "M", "m", "mass"),
}
SPELLING_OF = {sp: g for g, sps in GENERIC.items() for sp in sps}
MOMENTUM_SPELLINGS = {"px", "py", "pt", "pz", "E", "e", "energy", "M", "m", "mass"}


class Spec:
    """the documented grammar as z3 formulas over presence booleans"""

    def __init__(self):
        self.P = {n: z3.Bool("p_" + n) for n in UNIVERSE}
        P = self.P

        def cnt(names):
            return [(P[n], 1) for n in names]

        self.has = {g: z3.PbEq(cnt(sps), 1) for g, sps in GENERIC.items()}  # spelled exactly once
        self.none = {g: z3.PbEq(cnt(sps), 0) for g, sps in GENERIC.items()}
        dup = z3.Or(*[z3.PbGe(cnt(sps), 2) for g, sps in GENERIC.items() if len(sps) > 1])
        h, n = self.has, self.none
        self.az_xy = z3.And(h["x"], h["y"], n["rho"], n["phi"])
        self.az_rp = z3.And(h["rho"], h["phi"], n["x"], n["y"])
        lon_names = GENERIC["z"] + GENERIC["theta"] + GENERIC["eta"]
        tem_names = GENERIC["t"] + GENERIC["tau"]
        self.one_l = z3.PbEq(cnt(lon_names), 1)
        self.no_l = z3.PbEq(cnt(lon_names), 0)
        self.one_t = z3.PbEq(cnt(tem_names), 1)
        self.no_t = z3.PbEq(cnt(tem_names), 0)
        self.foreign = P["charge"]
        self.ok = z3.And(
            z3.Or(self.az_xy, self.az_rp),
            z3.Or(z3.And(self.no_l, self.no_t), z3.And(self.one_l, self.no_t), z3.And(self.one_l, self.one_t)),
            z3.Not(self.foreign),
            z3.Not(dup),
        )
        self.dim = z3.If(self.one_t, 4, z3.If(self.one_l, 3, 2))
        self.mom = z3.Or(*[P[n] for n in MOMENTUM_SPELLINGS])
        self.solver = z3.Solver()
        self.queries = 0

    def decide(self, present, claim):
        """is `claim` (a z3 formula over P) entailed by the path condition (exact presence set)?"""
        s = self.solver
        s.push()
        for n in UNIVERSE:
            s.add(self.P[n] if n in present else z3.Not(self.P[n]))
        s.add(z3.Not(claim))
        self.queries += 1
        import time as _t

        from symx import core as _core

        t0 = _t.time()
        r = str(s.check())
        _core.GLOBAL_STATS.add("grammar", _t.time() - t0)
        s.pop()
        return r == "unsat"


def _stored_names(v):
    system, coords = lanes.stored(v)
    return list(lanes.AZ_NAMES[system[0]]) + list(system[1:]), coords


def _observe_object(call, kw):
    """run a constructor of the object backend; outcome summary"""
    try:
        v = call(**kw)
    except TypeError as e:
        return ("TypeError", str(e)[:60])
    names, coords = _stored_names(v)
    from vector._methods import Momentum

    return ("ok", len(names), isinstance(v, Momentum), tuple(names), coords, type(v).__name__)


def _expect_values(names_present, kw):
    """generic coordinate -> supplied value (when spelled exactly once)"""
    out = {}
    for n in names_present:
        g = SPELLING_OF.get(n)
        if g is not None:
            out.setdefault(g, []).append(kw[n])
    return out


def _subsets(first_idx, bound, order):
    """all name sets of size <= bound whose lowest-index member (in `order`) is order[first_idx]"""
    rest = order[first_idx + 1 :]
    head = order[first_idx]
    for k in range(0, bound):
        for comb in itertools.combinations(rest, k):
            yield (head,) + comb


def make_fn(target, first_idx, bound, reverse=False):
    def fn(R):
        import vector
        from vector.backends import object as vo

        spec = Spec()
        order = UNIVERSE
        goals = []
        n_paths = 0
        mismatches = []
        vals = {n: R.real(f"v_{n}") for n in UNIVERSE}
        dims = {"VectorObject2D": 2, "MomentumObject2D": 2, "VectorObject3D": 3, "MomentumObject3D": 3, "VectorObject4D": 4, "MomentumObject4D": 4}
        for names in _subsets(first_idx, bound, order):
            n_paths += 1
            seq = list(reversed(names)) if reverse else list(names)
            kw = {n: vals[n] for n in seq}
            present = set(names)
            exp = _expect_values(names, kw)
            problem = None
            if target == "obj":
                out = _observe_object(vector.obj, dict(kw))
                if out[0] == "ok":
                    _, d, mom, snames, coords, cname = out
                    claim = z3.And(spec.ok, spec.dim == d, spec.mom == mom)
                    if not spec.decide(present, claim):
                        problem = f"accepted as {cname} but the grammar rejects or disagrees"
                    else:
                        for g, c in zip(snames, coords):
                            if len(exp.get(g, [])) != 1 or exp[g][0] is not c:
                                problem = f"coordinate {g} does not hold the supplied value"
                else:
                    if not spec.decide(present, z3.Not(spec.ok)):
                        problem = "rejected a documented coordinate set"
            elif target in dims:
                cls = getattr(vo, target)
                D = dims[target]
                out = _observe_object(cls, dict(kw))
                valid = z3.And(spec.ok, spec.dim == D)
                if out[0] == "ok":
                    _, d, mom, snames, coords, cname = out
                    if not spec.decide(present, valid) or d != D or cname != target:
                        problem = f"accepted as {cname}({','.join(snames)}) but the grammar rejects"
                    else:
                        for g, c in zip(snames, coords):
                            if len(exp.get(g, [])) != 1 or exp[g][0] is not c:
                                problem = f"coordinate {g} does not hold the supplied value"
                else:
                    if not spec.decide(present, z3.Not(valid)):
                        problem = "rejected a documented coordinate set"
            elif target == "check_names":
                from vector.backends.awkward_constructors import _check_names

                try:
                    mom, d, onames, cols = _check_names(dict(kw), list(seq))
                    out = ("ok",)
                except TypeError:
                    out = ("TypeError",)
                if out[0] == "ok":
                    problem = _lenient_problem(d, mom, onames, cols, kw, present)
                    if problem is None and spec.decide(present, spec.ok):
                        if not spec.decide(present, z3.And(spec.dim == d, spec.mom == mom)) or len(onames) != d:
                            problem = "documented set interpreted with another dimension / flavor"
                else:
                    if not spec.decide(present, z3.Not(spec.ok)):
                        problem = "rejected a documented coordinate set"
            elif target == "array":
                problem = _array_problem(spec, present, seq)
            if problem:
                mismatches.append((",".join(sorted(names)), problem))
        for key, problem in mismatches[:40]:
            goals.append((f"mismatch:{key}", G.true(False, problem)))
        goals.append((f"all-{n_paths}-name-sets-agree-with-grammar", G.true(not mismatches, f"{len(mismatches)} mismatches")))
        fn.paths = n_paths
        fn.queries = spec.queries
        goals.append((f"paths={n_paths};z3-queries={spec.queries}", G.true(True)))
        return goals

    return fn


def _lenient_problem(d, mom, onames, cols, kw, present):
    """array-style constructors: what was accepted must be a valid subset of the given names, values unchanged"""
    if d not in (2, 3, 4) or len(onames) < d:
        return "incomplete coordinate set accepted"
    coord = onames[:d]
    if tuple(coord[:2]) not in (("x", "y"), ("rho", "phi")):
        return f"azimuthal part {coord[:2]} is not a documented pair"
    if d >= 3 and coord[2] not in ("z", "theta", "eta"):
        return "longitudinal part is not a documented coordinate"
    if d == 4 and coord[3] not in ("t", "tau"):
        return "temporal part is not a documented coordinate"
    used_mom = False
    for g, c in zip(coord, cols[:d]):
        srcs = [n for n in present if SPELLING_OF.get(n) == g and kw[n] is c]
        if not srcs:
            return f"coordinate {g} does not hold a value supplied under one of its spellings"
        used_mom = used_mom or any(s in MOMENTUM_SPELLINGS for s in srcs)
    if mom and not any(n in MOMENTUM_SPELLINGS for n in present):
        return "momentum flavor without any momentum spelling"
    for n, c in zip(onames[d:], cols[d:]):
        if n not in present or kw[n] is not c:
            return f"extra field {n} does not hold its supplied value"
    return None


def _array_problem(spec, present, seq):
    import numpy

    import vector
    from vector._methods import Momentum

    cols = {n: numpy.array([1.5 + i, -2.25 * (i + 1)]) for i, n in enumerate(seq)}
    try:
        a = vector.array(dict(cols))
    except Exception as e:
        if spec.decide(present, spec.ok) and isinstance(e, Exception):
            return f"rejected a documented coordinate set ({type(e).__name__})"
        return None
    d = 2 if hasattr(a, "azimuthal") else 0
    try:
        coord = list(a.azimuthal.dtype.names)
        if hasattr(a, "longitudinal"):
            d = 3
            coord += list(a.longitudinal.dtype.names)
            if hasattr(a, "temporal"):
                d = 4
                coord += list(a.temporal.dtype.names)
    except Exception as e:
        return f"accepted but coordinates are not readable: {type(e).__name__}"
    mom = isinstance(a, Momentum)
    if tuple(coord[:2]) not in (("x", "y"), ("rho", "phi")) or len(coord) != d:
        return f"coordinates {coord} are not a documented set"
    for g in coord:
        srcs = [n for n in present if SPELLING_OF.get(n) == g and numpy.array_equal(numpy.asarray(a[g]), cols[n])]
        if not srcs:
            return f"coordinate {g} does not hold a value supplied under one of its spellings"
    if spec.decide(present, spec.ok):
        if not spec.decide(present, z3.And(spec.dim == d, spec.mom == mom)):
            return f"documented set built as {type(a).__name__}"
    return None


def make_kinds(target):
    """value kinds: ints, floats and NumPy scalars accepted; bool and non-numbers rejected"""

    def fn(R):
        import numpy

        import vector
        from vector.backends import object as vo

        good = {"int": 3, "float": 2.5, "numpy.float64": numpy.float64(1.25), "numpy.int32": numpy.int32(7), "numpy.float32": numpy.float32(0.5)}
        bad = {"bool": True, "str": "1", "None": None, "complex": 1 + 2j, "list": [1.0], "numpy.bool_": numpy.bool_(True)}
        sets = {
            "obj": [("x", "y"), ("rho", "phi", "eta"), ("px", "py", "pz", "E"), ("pt", "phi", "theta", "mass"), ("x", "y", "z", "tau")],
            "VectorObject2D": [("x", "y"), ("rho", "phi")],
            "MomentumObject2D": [("px", "py"), ("pt", "phi")],
            "VectorObject3D": [("x", "y", "z"), ("rho", "phi", "eta")],
            "MomentumObject3D": [("px", "py", "pz"), ("pt", "phi", "theta")],
            "VectorObject4D": [("x", "y", "z", "t"), ("rho", "phi", "eta", "tau")],
            "MomentumObject4D": [("px", "py", "pz", "E"), ("pt", "phi", "theta", "mass"), ("px", "py", "pz", "energy")],
        }[target]
        call = vector.obj if target == "obj" else getattr(vo, target)
        goals = []
        for names in sets:
            for pos in range(len(names)):
                for kn, kv in good.items():
                    kw = {n: 1.0 for n in names}
                    kw[names[pos]] = kv
                    try:
                        v = call(**kw)
                        _, coords = _stored_names(v)
                        ok = coords[pos] is kv or coords[pos] == kv
                    except TypeError:
                        ok = False
                    goals.append((f"accepts-{kn}:{','.join(names)}[{names[pos]}]", G.true(ok)))
                for kn, kv in bad.items():
                    kw = {n: 1.0 for n in names}
                    kw[names[pos]] = kv
                    try:
                        call(**kw)
                        ok = False
                    except TypeError:
                        ok = True
                    except Exception:
                        ok = False
                    goals.append((f"rejects-{kn}:{','.join(names)}[{names[pos]}]", G.true(ok)))
        return goals

    return fn


TARGETS = ["obj", "VectorObject2D", "MomentumObject2D", "VectorObject3D", "MomentumObject3D", "VectorObject4D", "MomentumObject4D", "check_names", "array"]
FUNCS = {
    "obj": ["vector.backends.object.obj", "vector.backends.object._gather_coordinates", "vector.backends.object._is_type_safe"],
    "check_names": ["vector.backends.awkward_constructors._check_names"],
    "array": ["vector.backends.numpy.array", "vector.backends.numpy.VectorNumpy2D.__array_finalize__", "vector.backends.numpy._array_from_columns"],
}


def families(tier="quick"):
    fams = []
    for t in TARGETS:
        bound = 5
        if tier == "thorough" and t == "obj":
            bound = 6
        funcs = FUNCS.get(t, [f"vector.backends.object.{t}.__init__", "vector.backends.object._is_type_safe"])
        for i in range(len(UNIVERSE)):
            for rev in (False, True):
                if rev and t in ("obj", "check_names", "array") and tier != "thorough":
                    continue
                fams.append(
                    Family(
                        f"{PID}/{t}/first={UNIVERSE[i]}/{'reversed' if rev else 'canonical'}-order/<= {bound} names",
                        make_fn(t, i, bound, rev),
                        defd=False,
                        functions=funcs,
                        hard_s=900,
                    )
                )
        if t not in ("check_names", "array"):
            fams.append(Family(f"{PID}/{t}/value-kinds", make_kinds(t), defd=False, functions=funcs))
    return fams
