"""C14 — momentum names are exact synonyms of the geometric names (object backend; NumPy and
SymPy lanes are added by props/c03.py / c08.py helpers)."""
from __future__ import annotations

from symx import lanes
from symx import run as G
from symx.driver import Family
from spec import model as spec

from vector._methods import _repr_momentum_to_generic

from . import laws

PID = "C14"
EXPLANATION = (
    "bounded SMT checking of the symbolically executed real code: for every row of the synonym table and every coordinate system the momentum "
    "getter of the object backend is executed on z3-term coordinates and must return the same object as the geometric getter, or a term z3 proves "
    "equal; assigning through a synonym must produce the post-state of assigning through the geometric name; constructing through synonyms, the "
    "to_pxpy...to_ptphietamass conversions and the Et/Mt spellings are compared the same way; the same method is run on a momentum-flavored and on a "
    "generic vector with the same coordinates and z3 decides that every number agrees (flavor never changes a number)"
)
BOUNDS = {"semantics": "exact reals", "outside": "Awkward field lookups (C++ layouts); NumPy field access is exercised in the NumPy lane of C03"}

GETTERS = {
    2: {"px": "x", "py": "y", "pt": "rho", "pt2": "rho2"},
    3: {"pz": "z", "p": "mag", "p2": "mag2", "pseudorapidity": "eta"},
    4: {"E": "t", "e": "t", "energy": "t", "E2": "t2", "e2": "t2", "energy2": "t2", "M": "tau", "m": "tau", "mass": "tau", "M2": "tau2", "m2": "tau2", "mass2": "tau2"},
}
SAME = {4: [("Et", "et", "transverse_energy"), ("Et2", "et2", "transverse_energy2"), ("Mt", "mt", "transverse_mass"), ("Mt2", "mt2", "transverse_mass2")]}
SETTERS = {2: {"px": "x", "py": "y", "pt": "rho"}, 3: {"pz": "z"}, 4: {"E": "t", "e": "t", "energy": "t", "M": "tau", "m": "tau", "mass": "tau"}}
CONV = {
    2: {"to_pxpy": "to_xy", "to_ptphi": "to_rhophi"},
    3: {"to_pxpypz": "to_xyz", "to_pxpytheta": "to_xytheta", "to_pxpyeta": "to_xyeta", "to_ptphipz": "to_rhophiz", "to_ptphitheta": "to_rhophitheta", "to_ptphieta": "to_rhophieta"},
    4: {
        "to_pxpypzenergy": "to_xyzt", "to_pxpythetaenergy": "to_xythetat", "to_pxpyetaenergy": "to_xyetat", "to_pxpypzmass": "to_xyztau", "to_pxpythetamass": "to_xythetatau",
        "to_pxpyetamass": "to_xyetatau", "to_ptphipzenergy": "to_rhophizt", "to_ptphithetaenergy": "to_rhophithetat", "to_ptphietaenergy": "to_rhophietat", "to_ptphipzmass": "to_rhophiztau",
        "to_ptphithetamass": "to_rhophithetatau", "to_ptphietamass": "to_rhophietatau",
    },
}


def _eq_or_same(a, b, angle=False):
    if a is b:
        return G.true(True)
    return (G.eq_angle if angle else G.eq)(a, b)


def f_getters(system, spacelike=False):
    d = len(system) + 1

    def fn(R):
        v = R.vec(system, "1", momentum=True, offaxis=True, tau_nonneg=not spacelike)
        if spacelike:
            # negative stored mass: the spacelike vector with E^2 = p^2 - m^2 > 0 (documented convention)
            _, st = lanes.stored(v)
            sp = spec.decode(R.lib, system[:2], st[:3])
            R.assume(st[3] < 0)
            R.assume(sp[0] * sp[0] + sp[1] * sp[1] + sp[2] * sp[2] - st[3] * st[3] > 0)
        c = spec.cart(R.lib, v)
        if d == 4 and not spacelike:
            R.assume(c[3] > 0)
            R.assume(spec.tau2(R.lib, c) > 0)
        goals = []
        for dd in range(2, d + 1):
            for syn, gen in GETTERS[dd].items():
                goals.append((f"{syn}={gen}", _eq_or_same(getattr(v, syn), getattr(v, gen))))
        for grp in SAME.get(d, []):
            base = getattr(v, grp[0])
            for other in grp[1:]:
                goals.append((f"{other}={grp[0]}", _eq_or_same(getattr(v, other), base)))
        return goals

    return fn


def f_setters(system, syn, gen):
    def fn(R):
        a = R.real("a")
        v1 = R.vec(system, "1", momentum=True, offaxis=True)
        _, coords = lanes.stored(v1)
        v2 = R.build(system, list(coords), momentum=True)
        R.untrack(v1)
        R.untrack(v2)
        setattr(v1, syn, a)
        setattr(v2, gen, a)
        s1, c1 = lanes.stored(v1)
        s2, c2 = lanes.stored(v2)
        goals = [("same-coordinate-system", G.true(s1 == s2, f"{s1} vs {s2}"))]
        for i, (x, y) in enumerate(zip(c1, c2)):
            goals.append((f"stored[{i}]", _eq_or_same(x, y)))
        goals.append(("reads-back", G.same(getattr(v1, syn), a)))
        return goals

    return fn


def f_conversions(system):
    d = len(system) + 1

    def fn(R):
        v = R.vec(system, "1", momentum=True, offaxis=True)
        c = spec.cart(R.lib, v)
        if d == 4:
            R.assume(c[3] > 0)
            R.assume(spec.tau2(R.lib, c) > 0)
        goals = []
        from . import c04

        pairs = []
        for dd in range(d, 5):
            for syn, gen in CONV[dd].items():
                tsys = c04.TARGETS[syn][0]
                kws, kwg = {}, {}
                for pos in range(d, dd):
                    nm = tsys[pos - 1]
                    val = R.real(f"kw_{syn}_{nm}")
                    kws[c04.KW_M[nm]] = val
                    kwg[c04.KW[nm]] = val
                pairs.append((syn, gen, kws, kwg))
        for syn, gen, kws, kwg in pairs:
            a, b = getattr(v, syn)(**kws), getattr(v, gen)(**kwg)
            sa, ca = lanes.stored(a)
            sb, cb = lanes.stored(b)
            goals.append((f"{syn}:system", G.true(sa == sb and type(a) is type(b), f"{sa} vs {sb}")))
            names = list(lanes.AZ_NAMES[sa[0]]) + list(sa[1:])
            for nm, x, y in zip(names, ca, cb):
                goals.append((f"{syn}.{nm}", _eq_or_same(x, y, angle=nm in ("phi", "theta"))))
            for kw, val in kws.items():
                # the keyword value passed under the momentum spelling is stored as that very object
                goals.append((f"{syn}({kw}=):stored", G.true(any(c is val for c in ca), kw)))
        return goals

    return fn


def f_construct(system):
    """constructing through synonyms stores the same objects as the geometric names"""
    d = len(system) + 1

    def fn(R):
        import vector

        names = list(lanes.AZ_NAMES[system[0]]) + list(system[1:])
        vals = [R.real(f"c{i}") for i in range(len(names))]
        gen2mom = {}
        for m, g in _repr_momentum_to_generic.items():
            gen2mom.setdefault(g, []).append(m)
        goals = []
        # every combination that replaces one coordinate by each of its momentum spellings
        base = vector.obj(**dict(zip(names, vals)))
        _, cbase = lanes.stored(base)
        for i, nm in enumerate(names):
            for syn in gen2mom.get(nm, []):
                kw = dict(zip(names, vals))
                kw[syn] = kw.pop(nm)
                w = vector.obj(**kw)
                sw, cw = lanes.stored(w)
                ok = sw == tuple(system) and all(x is y for x, y in zip(cw, cbase))
                from vector._methods import Momentum

                goals.append((f"obj({syn})", G.true(ok and isinstance(w, Momentum), f"{sw}")))
                goals.append((f"obj({syn}).{syn}", G.same(getattr(w, syn), vals[i])))
        return goals

    return fn


def f_flavor_numbers(system):
    """the same public calls on a generic and on a momentum vector with identical coordinates"""
    d = len(system) + 1

    def fn(R):
        lib = R.lib
        g = R.vec(system, "1", momentum=False, offaxis=True)
        _, coords = lanes.stored(g)
        m = R.build(system, list(coords), momentum=True)
        o = R.vec(lanes.CART[d], "2")
        c = spec.cart(lib, g)
        if d == 4:
            R.assume(c[3] > 0)
            R.assume(spec.tau2(lib, c) > 0)
        goals = []
        scal = ["x", "y", "rho", "rho2", "phi"] + (["z", "theta", "eta", "costheta", "cottheta", "mag", "mag2"] if d >= 3 else []) + (["t", "t2", "tau", "tau2", "beta", "gamma", "rapidity"] if d == 4 else [])
        for nm in scal:
            goals.append((nm, _eq_or_same(getattr(g, nm), getattr(m, nm), angle=nm in ("phi", "theta"))))
        goals.append(("dot", _eq_or_same(g.dot(o), m.dot(o))))
        k = R.real("k", "nonneg")
        for lab, a, b in (("add", g + o, m + o), ("scale", g * k, m * k), ("rotateZ", g.rotateZ(k), m.rotateZ(k))):
            sa, ca = lanes.stored(a)
            sb, cb = lanes.stored(b)
            goals.append((f"{lab}:system", G.true(sa == sb)))
            names = list(lanes.AZ_NAMES[sa[0]]) + list(sa[1:])
            for nm2, x, y in zip(names, ca, cb):
                goals.append((f"{lab}.{nm2}", _eq_or_same(x, y, angle=nm2 in ("phi", "theta"))))
        return goals

    return fn


def families(tier="quick"):
    fams = []

    def add(key, fn, functions, defd=False):
        fams.append(Family(f"{PID}/{key}", fn, defd=defd, functions=functions))

    M = "vector._methods."
    for d in (2, 3, 4):
        for s in lanes.ALL_SYS[d]:
            n = lanes.sysname(s)
            add(f"getters/{n}", f_getters(s), [M + "PlanarMomentum", M + "SpatialMomentum", M + "LorentzMomentum"][: d - 1])
            if d == 4 and s[-1] == "tau":
                add(f"getters/{n}@spacelike", f_getters(s, spacelike=True), [M + "LorentzMomentum"])
            add(f"conversions/{n}", f_conversions(s), [M + "Vector.to_pxpy", M + "Vector.to_xy"])
            add(f"construct/{n}", f_construct(s), ["vector.backends.object.obj"])
            add(f"flavor-numbers/{n}", f_flavor_numbers(s), [M + "_flavor_of", "vector.backends.object.VectorObject2D._wrap_result"])
            for dd in range(2, d + 1):
                for syn, gen in SETTERS[dd].items():
                    add(f"setter/{n}/{syn}", f_setters(s, syn, gen), [f"vector.backends.object.MomentumObject{d}D.{syn}.setter"])
    return fams
