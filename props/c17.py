"""C17 — reductions of vector arrays are component-wise Cartesian reductions (NumPy lane)."""
from __future__ import annotations

import numpy

from symx import lanes, nplane
from symx import run as G
from symx.driver import Family
from spec import model as spec

from vector._methods import Momentum

from . import c03

PID = "C17"
EXPLANATION = (
    "bounded SMT checking of the symbolically executed real code: numpy.sum / .sum() of the NumPy backend (vector.backends.numpy._reduce_sum through "
    "__array_function__) is executed on structured arrays of dtype object holding z3-term scalars, for every coordinate system, dimension and flavor, "
    "shapes (1,), (3,), (2,2), (2,3), axes None/0/1/-1 and both keepdims; z3 (QF_NRA) decides that every element of the result has the Cartesian "
    "components Sum_i cart(a_i) over the reduced axis; result shape (compared with NumPy's own reduction of a float array of that shape), Cartesian "
    "field names and flavor are compared structurally; empty arrays (no values involved) are run concretely: the sum is the zero vector"
)
BOUNDS = {"shapes": "(1,), (3,), (2,2), (2,3)", "outside": "the value of count_nonzero (compares an object array outside any hook: needs a concrete bool; only 'the operand is not written before that comparison' is claimed), every ak.* reducer (C++)"}
ASSUMPTIONS = c03.ASSUMPTIONS

SHAPES = [(1,), (3,), (2, 2), (2, 3)]


def f_sum(system, momentum, shape, method):
    d = len(system) + 1

    def fn(R):
        lib = R.lib
        a, cols = c03.np_operand(R, system, "a", shape, momentum, offaxis=False)
        snap = c03.np_snapshot(a)
        carts = {idx: spec.decode(lib, system, [c[idx] for c in cols]) for idx in numpy.ndindex(shape)}
        goals = []
        model = numpy.zeros(shape)
        axes = [None, 0, -1] + ([1] if len(shape) > 1 else [])
        for axis in axes:
            for keepdims in (False, True):
                label = f"sum(axis={axis},keepdims={keepdims})"
                try:
                    r = numpy.sum(a, axis=axis, keepdims=keepdims) if method == "numpy.sum" else a.sum(axis=axis, keepdims=keepdims)
                except Exception as e:
                    goals.append((f"{label}:raised", G.true(False, f"{type(e).__name__}: {str(e)[:100]}")))
                    continue
                want_shape = numpy.sum(model, axis=axis, keepdims=keepdims).shape
                goals.append((f"{label}:shape", G.true(getattr(r, "shape", None) == want_shape, f"{getattr(r, 'shape', None)} vs {want_shape}")))
                goals.append((f"{label}:flavor", G.true(isinstance(r, Momentum) == momentum, type(r).__name__)))
                names = tuple(r.dtype.names or ())
                goals.append((f"{label}:cartesian-fields", G.true(names == ("x", "y", "z", "t")[:d], str(names))))
                if getattr(r, "shape", None) != want_shape or names != ("x", "y", "z", "t")[:d]:
                    continue
                # expected: sums over the reduced axis
                ax = None if axis is None else (axis % len(shape))
                for ridx in numpy.ndindex(want_shape):
                    members = []
                    for idx in numpy.ndindex(shape):
                        if ax is None:
                            members.append(idx)
                        else:
                            rest = tuple(x for k, x in enumerate(idx) if k != ax)
                            cmp_idx = tuple(x for k, x in enumerate(ridx) if not (keepdims and k == ax)) if keepdims else ridx
                            if rest == cmp_idx:
                                members.append(idx)
                    for ci, nm in enumerate(("x", "y", "z", "t")[:d]):
                        tot = carts[members[0]][ci]
                        for m in members[1:]:
                            tot = tot + carts[m][ci]
                        got = r[nm][ridx] if want_shape != () else r[nm][()]
                        goals.append((f"{label}[{ridx}].{nm}", G.eq(got, tot)))
        goals.append(("frame:array-unmodified", G.true(c03.np_snapshot(a) == snap)))
        return goals

    return fn


def f_count_nonzero_frame(system, momentum, shape):
    """count_nonzero compares an object array outside any hook (its value needs concrete truth values: outside the claim), but
    everything it executes before that first comparison runs on symbolic scalars: the array operand must not have been written"""

    def fn(R):
        from symx import core

        a, cols = c03.np_operand(R, system, "a", shape, momentum, offaxis=False)
        goals = []
        for label, call in (("numpy.count_nonzero", lambda: numpy.count_nonzero(a)), ("numpy.count_nonzero(axis=0)", lambda: numpy.count_nonzero(a, axis=0))):
            snap = c03.np_snapshot(a)
            try:
                call()
                reached = "returned"
            except core.SymbolicBranch:
                reached = "stopped at the first comparison of symbolic values"
            except Exception as e:
                reached = f"raised {type(e).__name__}"
            goals.append((f"frame:array-unmodified by {label}", G.true(c03.np_snapshot(a) == snap, reached)))
        return goals

    return fn


def f_empty():
    """empty lists sum to the zero vector: no values are involved, the concrete run is the whole space"""

    def fn(R):
        import vector

        goals = []
        for names in (("x", "y"), ("rho", "phi"), ("px", "py", "pz"), ("rho", "phi", "eta"), ("x", "y", "z", "t"), ("pt", "phi", "theta", "mass")):
            for shape, axis in (((0,), None), ((0,), 0), ((0, 3), 0), ((2, 0), 1), ((2, 0), None)):
                a = vector.array({n: numpy.zeros(shape) for n in names})
                r = numpy.sum(a, axis=axis)
                want = numpy.sum(numpy.zeros(shape), axis=axis)
                ok = r.shape == want.shape and all(numpy.all(numpy.asarray(r[f]) == 0) for f in r.dtype.names)
                ok = ok and isinstance(r, Momentum) == isinstance(a, Momentum) and len(r.dtype.names) == len(names)
                goals.append((f"empty-sum{names}{shape}axis={axis}", G.true(ok, f"{r!r}"[:80])))
        return goals

    return fn


def families(tier="quick"):
    fams = []
    NP = "vector.backends.numpy."
    for d in (2, 3, 4):
        for si, s in enumerate(lanes.ALL_SYS[d]):
            for mi, mom in enumerate((False, True)):
                for shi, shape in enumerate(SHAPES):
                    if tier != "thorough" and (shi + si + mi) % 2 == 1:
                        continue
                    method = "numpy.sum" if (shi + mi) % 2 == 0 else ".sum"
                    fams.append(
                        Family(
                            f"{PID}/sum/{lanes.sysname(s)}/{'momentum' if mom else 'generic'}/shape={shape}/{method}",
                            f_sum(s, mom, shape, method),
                            defd=False,
                            functions=[NP + "_reduce_sum", NP + "VectorNumpy.__array_function__", NP + "VectorNumpy.sum", NP + "array", NP + "_array_from_columns"],
                            structural=False,
                            hard_s=400,
                        )
                    )
    for d in (2, 3, 4):
        for s in lanes.ALL_SYS[d]:
            for mom in (False, True):
                fams.append(
                    Family(f"{PID}/count_nonzero-frame/{lanes.sysname(s)}/{'momentum' if mom else 'generic'}", f_count_nonzero_frame(s, mom, (2, 2)), defd=False,
                           functions=[NP + "_reduce_count_nonzero", NP + "VectorNumpy.__array_function__", NP + "VectorNumpy.count_nonzero"], structural=True, frame=False)
                )
    fams.append(Family(f"{PID}/empty", f_empty(), defd=False, functions=[NP + "_reduce_sum"], structural=True))
    return fams
