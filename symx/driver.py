"""Obligation driver: symbolic execution of a family, solver verdict per goal, replay of solver
counterexamples on the real code (mpmath 50 digits and float64), multiprocessing."""
from __future__ import annotations

import json
import multiprocessing
import os
import signal
import time
import traceback

import z3

from . import core, poly, run
from .core import Unsupported
from .run import CGoal, ConcRun, F64Run, Goal, OutOfDomain, SymRun


class Family:
    def __init__(self, key, fn, defd=True, tier="quick", functions=(), note="", timeout_ms=None, hard_s=None, structural=False, frame=True):
        self.key = key
        self.fn = fn
        self.defd = defd
        self.tier = tier
        self.functions = tuple(functions)
        self.note = note
        self.timeout_ms = timeout_ms
        self.hard_s = hard_s
        self.structural = structural  # only structural goals: no solver-pruned case splits during execution
        self.frame = frame
        self.abstract = False  # decode operands into abstraction symbols first (fallback: plain expressions)


class FamilyTimeout(BaseException):
    pass


def _alarm(signum, frame):
    raise FamilyTimeout()


# ------------------------------------------------------------------------------------------
# discharging one symbolic goal
# ------------------------------------------------------------------------------------------


def _bare_root(ctx, sym):
    if not sym.isint:
        return None
    n = core.simp(sym.n)
    for (r, N, D, k) in ctx.sqrts:
        if k == 2 and z3.eq(n, r):
            return (r, N, D)
    return None


def _discharge_poly(ctx, P, cond, timeout_ms, depth):
    """prove cond => P == 0; an unconditional identity found on the way becomes a lemma"""
    it = core._find_ite(P)
    if it is not None and depth < 3:
        cnd, ta, tb = it.children()
        for c2, repl in ((cnd, ta), (z3.Not(cnd), tb)):
            Pb = z3.substitute(P, (it, repl))
            ctx.keep.append(Pb)
            v, m, info = _discharge_poly(ctx, Pb, z3.And(cond, c2), timeout_ms, depth + 1)
            if v != "unsat":
                return v, m, info
        return "unsat", None, {"case_split": True}
    try:
        t0 = time.time()
        resid, info = poly.normal_form(ctx, P)
        ctx.stats.add("normal_form", time.time() - t0)
        if resid is None:
            # P == 0 holds on every model of the facts: usable as a lemma from now on
            ctx.add_fact(P == 0, "rel", "lemma(normal-form identity)")
            return "unsat", None, {"iters": 0, "normal_form": info}
        ctx.keep.append(resid)
        v, m, i2 = ctx.prove(z3.Implies(cond, resid == 0), timeout_ms)
        i2["normal_form"] = info
        return v, m, i2
    except poly.TooBig:
        return ctx.prove(z3.Implies(cond, P == 0), timeout_ms)


def discharge(ctx, goal, timeout_ms, depth=0):
    """returns (verdict, model, info); verdict in unsat/sat/unknown"""
    if goal.parts:
        worst = ("unsat", None, {"parts": len(goal.parts)})
        for p in goal.parts:
            v, m, info = discharge(ctx, p, timeout_ms)
            if v != "unsat":
                return v, m, info
        return worst
    if goal.kind == "eq" and goal.sides is not None:
        a, b = goal.sides
        for x, y in ((a, b), (b, a)):
            br = _bare_root(ctx, x)
            if br is not None and _bare_root(ctx, y) is None:
                r, N, D = br
                v1, m1, i1 = ctx.prove((y >= 0).t, timeout_ms)
                if v1 != "unsat":
                    # fall back to the plain equation
                    break
                v2, m2, i2 = ctx.prove((y * y == core.Sym(N, D)).t, timeout_ms)
                if v2 == "unsat":
                    return "unsat", None, {"sqrt_elim": True, "iters": i1["iters"] + i2["iters"]}
                break
    if goal.kind in ("eq", "eq_log") and goal.sides is not None:
        a, b = goal.sides
        P0 = a.n * b.d - b.n * a.d
        ctx.keep.append(P0)
        it = core._find_ite(P0)
        if it is not None and depth < 3:
            # case split on the if-then-else; an identity proved in one branch is a lemma for the other
            cnd, ta, tb = it.children()
            worst = None
            for cond, repl in ((cnd, ta), (z3.Not(cnd), tb)):
                Pb = z3.substitute(P0, (it, repl))
                ctx.keep.append(Pb)
                v, m, info = _discharge_poly(ctx, Pb, cond, timeout_ms, depth + 1)
                if v != "unsat":
                    return v, m, info
                worst = info
            return "unsat", None, {"case_split": True, "iters": (worst or {}).get("iters", 0)}
        try:
            t0 = time.time()
            resid, info = poly.normal_form(ctx, P0)
            ctx.stats.add("normal_form", time.time() - t0)
            if resid is None:
                return "unsat", None, {"iters": 0, "normal_form": info}
            ctx.keep.append(resid)
            v, m, i2 = ctx.prove(resid == 0, timeout_ms)
            i2["normal_form"] = info
            return v, m, i2
        except poly.TooBig:
            pass
        P = z3.simplify(P0, som=True)
        ctx.keep.append(P)
        if z3.is_rational_value(P) and P.numerator_as_long() == 0:
            return "unsat", None, {"iters": 0, "syntactic": True}
        return ctx.prove(P == 0, timeout_ms)
    return ctx.prove(goal.form, timeout_ms)


# ------------------------------------------------------------------------------------------
# concrete replay
# ------------------------------------------------------------------------------------------


def concrete_eval(fn, assignment, mode="mp"):
    """run the obligation concretely; returns dict label -> (ok, detail) or {'__skip__': reason}"""
    R = ConcRun(assignment) if mode == "mp" else F64Run(assignment)
    from . import lanes as _lanes

    _lanes.FRAGILE[0] = 0
    try:
        goals = fn(R)
        if mode == "mp" and _lanes.FRAGILE[0]:
            return {"__skip__": "a comparison sat on a boundary that rounding cannot resolve"}, R
    except OutOfDomain as e:
        return {"__skip__": str(e)}, R
    except (Unsupported,) as e:
        return {"__skip__": "unsupported in concrete mode: " + str(e)}, R
    except Exception as e:  # the real code raised on concrete operands
        return {"__raised__": f"{type(e).__name__}: {str(e)[:200]}"}, R
    out = {}
    for label, g in goals:
        if isinstance(g, CGoal):
            out[label] = (g.ok, g.detail)
        else:
            out[label] = (bool(g), "")
    fv = R.frame_violations()
    out["frame:operands-unmodified"] = (not fv, "; ".join(fv)[:300])
    return out, R


def _fmt_assignment(R):
    return {nm: {"value": str(q), "kind": kind, "decimal": str(v)[:40]} for nm, (v, q, kind) in R.used.items()}


def replay_failing(family, ctx, failing, candidates, seed, max_in_domain=60):
    """try to reproduce the undecided / refuted goals on the real code.
    failing: dict label -> verdict info.  Returns violation dict or None."""
    tried = 0
    in_domain = 0
    for src, assignment in candidates:
        if src == "random" and in_domain >= max_in_domain:
            break
        tried += 1
        # (a family whose obligations are about IEEE rounding replays on the unmodified float64 backend)
        primary = getattr(family, "replay_mode", "mp")
        res, R = concrete_eval(family.fn, assignment, primary)
        if "__skip__" in res:
            continue
        in_domain += 1
        bad = None
        if "__raised__" in res:
            bad = ("__raised__", res["__raised__"])
        else:
            for label in failing:
                if label in res and not res[label][0]:
                    bad = (label, res[label][1])
                    break
            if bad is None:
                # the family has undecided goals: any goal of it that fails on the real code at a point of
                # the domain is a genuine counterexample (e.g. the symbolic run stopped at an exception
                # that concrete numbers do not raise, or an undefined sub-expression)
                for label, (ok, detail) in res.items():
                    if not ok:
                        bad = (label, detail + " (found while replaying an undecided goal of this family)")
                        break
        if bad is None:
            continue
        res64, R64 = concrete_eval(family.fn, assignment, "f64")
        f64 = None
        if "__skip__" not in res64:
            if "__raised__" in res64:
                f64 = True
            elif bad[0] in res64:
                f64 = not res64[bad[0]][0]
        return {
            "family": family.key,
            "goal": bad[0],
            "detail": str(bad[1])[:400],
            "candidate_source": src,
            "inputs": _fmt_assignment(R),
            "assignment": {k: str(v) for k, v in assignment.items()},
            "reproduces_mp50": primary == "mp",
            "reproduces_float64": True if primary == "f64" else f64,
            "candidates_tried": tried,
        }
    return None


# ------------------------------------------------------------------------------------------
# one family
# ------------------------------------------------------------------------------------------


def run_family(family, opts):
    """primary encoding first; an obligation family may carry an alternative encoding of the same
    obligations (e.g. without operand abstraction) that is tried when the first one is undecided"""
    from spec import model as _spec

    if getattr(family, "abstract", False) and getattr(family, "alt_fn", None) is None:
        # first attempt with operand abstraction, second (same obligations) without
        family.alt_fn = family.fn
        family._abstract_first = True
    _spec.ABSTRACT_RUN = "pending" if getattr(family, "_abstract_first", False) else None
    try:
        res = _run_family(family, opts)
    finally:
        _spec.ABSTRACT_RUN = None
    alt = getattr(family, "alt_fn", None)
    if alt is not None and res.get("status") == "inconclusive" and not getattr(family, "hunt", False):
        f2 = Family(family.key, alt, defd=family.defd, tier=family.tier, functions=family.functions, note=family.note,
                    timeout_ms=family.timeout_ms, hard_s=family.hard_s, structural=family.structural, frame=family.frame)
        if getattr(family, "hunt", False):
            f2.hunt = True
        res2 = _run_family(f2, opts)
        res2["first_encoding"] = {"status": res.get("status"), "reason": res.get("reason"), "wall_s": res.get("wall_s")}
        res2["wall_s"] = round(res2.get("wall_s", 0) + res.get("wall_s", 0), 3)
        for k in ("queries", "solver_s", "cegar_iters", "prune_q", "merge_q"):
            if k in res.get("stats", {}) and k in res2.get("stats", {}):
                res2["stats"][k] = round(res2["stats"][k] + res["stats"][k], 3)
        if res2.get("status") in ("proved", "violation"):
            return res2
        return res2 if res2.get("status") == "inconclusive" else res
    return res


def _replay_only(family, opts, res, t0):
    """quick tier, family outside the claim: no solver at all, only the replay lane on the real code -
    a bug hunt that can report a reproducing counterexample and never counts as discharged"""
    import itertools as _it

    seed = opts.get("seed", 0)
    try:
        probe = ConcRun({})
        try:
            family.fn(probe)
        except Exception:
            pass
        inputs = {nm: kind for nm, (v, q, kind) in probe.used.items()}
        cands = _it.chain([("stratified", a) for a in run.stratified_assignments(inputs, 8, seed)], (("random", a) for a in run.random_assignments(inputs, 120, seed)))
        old = signal.signal(signal.SIGALRM, _alarm)
        signal.alarm(int(opts.get("replay_only_s", 25)))
        try:
            viol = replay_failing(family, None, {"*": {}}, cands, seed, max_in_domain=24)
        finally:
            signal.alarm(0)
            signal.signal(signal.SIGALRM, old)
        if viol is not None:
            res["status"] = "violation"
            res["violation"] = viol
        else:
            res["status"] = "inconclusive"
            res["reason"] = "outside the claim: replay lane only, nothing reproduced"
    except FamilyTimeout:
        res["status"] = "inconclusive"
        res["reason"] = "outside the claim: replay lane only, time budget used"
    except Exception as e:
        res["status"] = "inconclusive"
        res["reason"] = f"outside the claim: replay lane only ({type(e).__name__})"
    res["wall_s"] = round(time.time() - t0, 3)
    res["stats"] = {}
    res["replay_only"] = True
    return res


def _run_family(family, opts):
    t0 = time.time()
    core.GLOBAL_STATS = core.Stats()
    timeout_ms = family.timeout_ms or opts.get("timeout_ms", 10000)
    if getattr(family, "hunt", False):
        timeout_ms = min(timeout_ms, 3000)  # outside the claim: go to the replay lane quickly
    hard_s = family.hard_s or opts.get("hard_s", 300)
    if getattr(family, "hunt", False):
        hard_s = min(hard_s, opts.get("hunt_hard_s", 120))  # outside the claim: a bounded bug hunt, not an attempt to decide
    seed = opts.get("seed", 0)
    res = {
        "key": family.key,
        "status": "error",
        "goals": [],
        "functions": list(family.functions),
        "note": family.note,
    }
    if getattr(family, "hunt", False) and opts.get("hunt_replay_only"):
        return _replay_only(family, opts, res, t0)
    ctx = core.new_ctx(timeout_ms=timeout_ms, small_ms=opts.get("small_ms", 1500))
    ctx.stats = core.GLOBAL_STATS
    ctx.no_solver_in_execution = bool(getattr(family, "structural", False))
    old = signal.signal(signal.SIGALRM, _alarm)
    signal.alarm(int(hard_s))
    failing = {}
    models = []
    try:
        R = SymRun(ctx)
        from spec import model as _spec

        if _spec.ABSTRACT_RUN == "pending":
            _spec.ABSTRACT_RUN = R
        try:
            goals = family.fn(R)
        except Unsupported as e:
            res["status"] = "inconclusive"
            res["reason"] = f"unsupported: {type(e).__name__}: {e}"
            goals = None
        except FamilyTimeout:
            raise
        except Exception as e:
            if isinstance(e, MemoryError) or "out of memory" in str(e).lower() or "bad_alloc" in str(e).lower():
                raise  # the worker's memory cap, not the code under analysis
            # the real code raised while executing symbolically: confirm concretely
            res["reason"] = f"raised during symbolic execution: {type(e).__name__}: {str(e)[:300]}"
            res["trace"] = traceback.format_exc()[-1500:]
            goals = None
            cands = [("stratified", a) for a in run.stratified_assignments({n: k for n, (_, k) in ctx.inputs.items()}, 6, seed)]
            viol = replay_failing(family, ctx, {"__raised__": {}}, cands, seed)
            if viol is not None and viol["goal"] == "__raised__":
                res["status"] = "violation"
                res["violation"] = viol
            else:
                res["status"] = "error"
        if goals is not None:
            res["inputs"] = {n: k for n, (_, k) in ctx.inputs.items()}
            # vacuity twin: the false goal must be refutable (domain and facts are satisfiable)
            if getattr(family, "structural", False):
                v = "sat"  # structural obligations (object identity) do not depend on the domain
                res["vacuity_witness"] = "not-applicable(structural)"
            elif any(ctx.shadow_ok(k) for k in range(len(ctx.shadows))):
                v = "sat"  # a concrete point of the domain at which every definedness condition holds
                res["vacuity_witness"] = "shadow-point"
            else:
                v, m, info = ctx.prove(z3.BoolVal(False), timeout_ms, kind="vacuity", all_relevant=True)
                res["vacuity_witness"] = "solver"
            res["vacuity_twin"] = v
            if v == "unsat":
                res["status"] = "error"
                res["reason"] = "vacuous: domain and facts are unsatisfiable"
                return res
            allgoals = []
            if family.defd:
                seen = set()
                k = 0
                for f in list(ctx.facts):
                    if f.kind != "defd":
                        continue
                    fs = z3.simplify(f.f)
                    if z3.is_true(fs) or fs.get_id() in seen:
                        continue
                    seen.add(fs.get_id())
                    ctx.keep.append(fs)
                    k += 1
                    allgoals.append((f"defined#{k}:{f.label}", Goal(f.f, kind="defd"), f.stamp))
            for label, g in goals:
                allgoals.append((label, g, None))
            if getattr(family, "frame", True):
                fv = R.frame_violations()
                allgoals.append(("frame:operands-unmodified", CGoal(not fv, "; ".join(fv)[:300]), None))
            n_sym = 0
            outside = set(opts.get("outside_goals", {}).get(family.key, ()))
            hunt_goals = bool(opts.get("hunt_outside_goals"))
            hunt_failing = {}
            for label, g, upto in allgoals:
                tg = time.time()
                if label in outside and not (isinstance(g, CGoal) or isinstance(g, bool)):
                    # undecided on the pinned tree within the budget: not claimed (bounds.json -> outside_goals)
                    if not hunt_goals:
                        res["goals"].append({"label": label, "verdict": "outside-claim", "kind": g.kind})
                        hunt_failing[label] = {"verdict": "not-attempted"}  # replay lane only (quick tier)
                        continue
                    v, m, info = (ctx.prove(g.form, 3000, upto=upto, kind="hunt") if upto is not None else discharge(ctx, g, 3000))
                    res["goals"].append({"label": label, "verdict": "outside-claim", "hunt": v, "kind": g.kind})
                    if v != "unsat":
                        hunt_failing[label] = {"verdict": v}
                        if m is not None:
                            try:
                                models.append(run.model_assignment(ctx, m))
                            except Exception:
                                pass
                    continue
                if isinstance(g, CGoal) or isinstance(g, bool):
                    ok = bool(g)
                    res["goals"].append({"label": label, "verdict": "concrete-true" if ok else "concrete-false", "kind": "structural"})
                    if not ok:
                        failing[label] = {"verdict": "concrete-false", "detail": getattr(g, "detail", "")}
                    continue
                n_sym += 1
                if upto is not None:
                    v, m, info = ctx.prove(g.form, timeout_ms, upto=upto, kind="defd")
                else:
                    v, m, info = discharge(ctx, g, timeout_ms)
                entry = {"label": label, "verdict": v, "kind": g.kind, "s": round(time.time() - tg, 3), "iters": info.get("iters")}
                res["goals"].append(entry)
                if v != "unsat":
                    failing[label] = entry
                    if m is not None:
                        try:
                            models.append(run.model_assignment(ctx, m))
                        except Exception:
                            pass
                if "sample" not in res and g.kind != "defd":
                    res["sample"] = {"label": label, "goal": str(g.form)[:400], "verdict": v}
            if not failing and hunt_failing:
                inputs = {n: k for n, (_, k) in ctx.inputs.items()}
                import itertools as _it2

                cands = _it2.chain([("solver-model", a) for a in models], [("stratified", a) for a in run.stratified_assignments(inputs, 16, seed)],
                                   (("random", a) for a in run.random_assignments(inputs, 200, seed)))
                viol = replay_failing(family, ctx, hunt_failing, cands, seed)
                if viol is not None:
                    res["status"] = "violation"
                    res["violation"] = viol
                    failing = {"__hunt__": {}}
            if not failing:
                res["status"] = "proved"
            elif res.get("status") == "violation":
                pass
            else:
                inputs = {n: k for n, (_, k) in ctx.inputs.items()}
                cands = [("solver-model", a) for a in models]
                cands += [("stratified", a) for a in run.stratified_assignments(inputs, opts.get("n_candidates", 16), seed)]
                import itertools as _it

                cands = _it.chain(cands, (("random", a) for a in run.random_assignments(inputs, opts.get("n_random", 400), seed)))
                viol = replay_failing(family, ctx, failing, cands, seed)
                if viol is not None:
                    res["status"] = "violation"
                    res["violation"] = viol
                else:
                    res["status"] = "inconclusive"
                    res["reason"] = "undecided goals: " + ", ".join(f"{l}={e.get('verdict')}" for l, e in list(failing.items())[:6])
    except FamilyTimeout:
        res["status"] = "inconclusive"
        res["reason"] = f"family exceeded {hard_s}s"
    except Exception as e:
        if "FamilyTimeout" in f"{type(e).__name__}{e}":
            # the alarm fired inside a native callback
            res["status"] = "inconclusive"
            res["reason"] = f"family exceeded {hard_s}s"
        elif isinstance(e, MemoryError) or "out of memory" in str(e).lower() or "bad_alloc" in str(e).lower():
            res["status"] = "inconclusive"
            res["reason"] = "family exceeded the memory cap of a worker"
        else:
            res["status"] = "error"
            res["reason"] = f"harness error: {type(e).__name__}: {str(e)[:300]}"
        res["trace"] = traceback.format_exc()[-2000:]
    finally:
        signal.alarm(0)
        signal.signal(signal.SIGALRM, old)
        res["wall_s"] = round(time.time() - t0, 3)
        res["stats"] = core.GLOBAL_STATS.as_dict()
        res["generators"] = len(ctx.gen_names)
    return res


# ------------------------------------------------------------------------------------------
# pool
# ------------------------------------------------------------------------------------------

_FAMILIES = None
_OPTS = None


def _work(i):
    try:
        return run_family(_FAMILIES[i], _OPTS)
    except BaseException as e:  # never lose a family silently
        return {"key": _FAMILIES[i].key, "status": "error", "reason": f"worker: {type(e).__name__}: {e}", "goals": [], "wall_s": 0, "stats": {}}


def _worker_loop(task_q, result_q):
    # a family whose query makes the solver allocate without bound must not take the machine down (one nlsat query was
    # seen at 31 GB): the address space of a worker is capped; hitting the cap ends that family as inconclusive
    try:
        import resource

        cap = int(float(os.environ.get("VERIF_WORKER_GB", "10")) * (1 << 30))
        resource.setrlimit(resource.RLIMIT_AS, (cap, cap))
    except Exception:
        pass
    while True:
        i = task_q.get()
        if i is None:
            return
        result_q.put(("start", i, os.getpid(), time.time()))
        result_q.put(("done", i, _work(i)))


def run_all(families, opts, procs=None, progress=None):
    """own process pool with a watchdog: a worker stuck inside the solver beyond every budget (z3 does not
    always honour its timeout) is killed, its family is reported inconclusive and a fresh worker starts"""
    global _FAMILIES, _OPTS
    _FAMILIES, _OPTS = families, opts
    procs = procs or min(16, os.cpu_count() or 4)
    results = []
    if procs <= 1 or len(families) <= 1:
        for i in range(len(families)):
            r = _work(i)
            results.append(r)
            if progress:
                progress(r)
        return results
    ctxm = multiprocessing.get_context("fork")
    task_q, result_q = ctxm.Queue(), ctxm.Queue()
    for i in range(len(families)):
        task_q.put(i)
    workers = {}

    def spawn():
        p = ctxm.Process(target=_worker_loop, args=(task_q, result_q), daemon=True)
        p.start()
        workers[p.pid] = p

    for _ in range(min(procs, len(families))):
        spawn()
    running = {}  # pid -> (index, start time)
    done = 0
    n = len(families)
    import queue as _queue

    def limit(i):
        f = families[i]
        hard = f.hard_s or opts.get("hard_s", 300)
        return (2 if getattr(f, "alt_fn", None) or getattr(f, "abstract", False) else 1) * hard + 90

    while done < n:
        try:
            msg = result_q.get(timeout=5)
        except _queue.Empty:
            msg = None
        if msg is not None:
            if msg[0] == "start":
                running[msg[2]] = (msg[1], msg[3])
            else:
                _, i, r = msg
                for pid, (j, _t) in list(running.items()):
                    if j == i:
                        running.pop(pid, None)
                results.append(r)
                done += 1
                if progress:
                    progress(r)
        now = time.time()
        for pid, (i, t0) in list(running.items()):
            if now - t0 > limit(i):
                p = workers.pop(pid, None)
                if p is not None:
                    p.kill()
                    p.join(5)
                running.pop(pid, None)
                r = {"key": families[i].key, "status": "inconclusive", "reason": f"worker killed by the watchdog after {int(now - t0)}s (solver did not return)", "goals": [], "wall_s": round(now - t0, 1), "stats": {}, "functions": list(families[i].functions)}
                results.append(r)
                done += 1
                if progress:
                    progress(r)
                spawn()
        # a worker that died without reporting (crash in native code)
        for pid, p in list(workers.items()):
            if not p.is_alive() and pid in running:
                i, t0 = running.pop(pid)
                workers.pop(pid, None)
                r = {"key": families[i].key, "status": "inconclusive", "reason": "worker process died", "goals": [], "wall_s": round(now - t0, 1), "stats": {}, "functions": list(families[i].functions)}
                results.append(r)
                done += 1
                if progress:
                    progress(r)
                spawn()
    for _ in workers:
        task_q.put(None)
    for p in workers.values():
        p.join(2)
        if p.is_alive():
            p.kill()
    return results
