"""IEEE order abstraction ('guard lane').

Exact-real reasoning cannot see the clamps the kernels put in front of sqrt / arccos (maximum(., 0),
minimum(1, .), absolute): over the reals they never act.  This lane executes a kernel variant on abstract
IEEE-754 values and lets z3 decide that every argument reaching sqrt / arccos / arcsin lies in the
function's domain *for every rounding of every arithmetic operation*:

  * a value is (v, nan): a real-valued z3 variable (the number the float denotes) and a NaN flag;
  * every arithmetic operation returns a FRESH variable constrained only by facts that hold for any
    correctly rounded result (rounding is monotone and sign preserving):
        fl(a+b) >= a if b >= 0, ...; sign rules of * and /; |fl(a*b)| <= |a| if |b| <= 1;
        |fl(a/b)| <= 1 if |a| <= |b|; fl(x*x) >= 0; sqrt(fl(x*x)) == |x|; sqrt monotone against
        every recorded square; sqrt(a) >= 0;
  * maximum, minimum, absolute, copysign, negation, nan_to_num, where are exact;
  * libm functions are uninterpreted up to their range contracts (|sin|,|cos|,|tanh| <= 1, cosh >= 1,
    exp >= 0, sinh/arcsinh/arctan/tan(0,pi/2) keep signs, arctan2 in [-pi, pi], arccos in [0, pi]).

Outside the abstraction (stated in the evidence): overflow to inf, underflow to 0/subnormals in x*x
(sqrt(fl(x*x)) == |x| needs a normal x*x), denominators equal to zero.
"""
from __future__ import annotations

import math

import z3

_N = [0]


def _fresh(prefix="g"):
    _N[0] += 1
    return z3.Real(f"{prefix}!{_N[0]}")


class GCtx:
    def __init__(self):
        self.facts = []  # sound facts about fresh result variables
        self.assumptions = []  # stated assumptions (denominators non-zero ...)
        self.obligations = []  # (label, formula)
        self.squares = []  # (square value term, |x| term)
        self.sites = {}
        self.zero_over_zero = False  # True: 0/0 is modelled as NaN (degenerate operands); False: denominators are assumed non-zero

    def site(self, kind):
        self.sites[kind] = self.sites.get(kind, 0) + 1
        return f"{kind}#{self.sites[kind]}"


CTX = [None]


def ctx():
    return CTX[0]


def _abs(t):
    return z3.If(t >= 0, t, -t)


class GV:
    """abstract IEEE double"""

    __slots__ = ("v", "nan", "sq_of")
    __array_priority__ = 1000

    def __init__(self, v, nan=None, sq_of=None):
        self.v = v
        self.nan = z3.BoolVal(False) if nan is None else nan
        self.sq_of = sq_of

    # ---- arithmetic -----------------------------------------------------------------------
    def __add__(self, o):
        o = lift(o)
        a, b = self.v, o.v
        r = _fresh("add")
        c = ctx()
        c.facts += [z3.Implies(b >= 0, r >= a), z3.Implies(b <= 0, r <= a), z3.Implies(a >= 0, r >= b), z3.Implies(a <= 0, r <= b)]
        # rounding preserves the sign of the exact sum
        c.facts += [z3.Implies(a + b >= 0, r >= 0), z3.Implies(a + b <= 0, r <= 0)]
        return GV(r, z3.Or(self.nan, o.nan))

    __radd__ = __add__

    def __neg__(self):
        return GV(-self.v, self.nan)

    def __pos__(self):
        return self

    def __sub__(self, o):
        return self + (-lift(o))

    def __rsub__(self, o):
        return lift(o) + (-self)

    def __mul__(self, o):
        o = lift(o)
        a, b = self.v, o.v
        r = _fresh("mul")
        c = ctx()
        same = self is o or z3.eq(a, b)
        c.facts += [
            z3.Implies(z3.Or(z3.And(a >= 0, b >= 0), z3.And(a <= 0, b <= 0)), r >= 0),
            z3.Implies(z3.Or(z3.And(a >= 0, b <= 0), z3.And(a <= 0, b >= 0)), r <= 0),
            z3.Implies(z3.Or(a == 0, b == 0), r == 0),
            z3.Implies(b == 1, r == a),
            z3.Implies(a == 1, r == b),
            z3.Implies(b == -1, r == -a),
            z3.Implies(a == -1, r == -b),
            z3.Implies(_abs(b) <= 1, _abs(r) <= _abs(a)),
            z3.Implies(_abs(a) <= 1, _abs(r) <= _abs(b)),
            z3.Implies(_abs(b) >= 1, _abs(r) >= _abs(a)),
            z3.Implies(_abs(a) >= 1, _abs(r) >= _abs(b)),
        ]
        for k, other in ((a, b), (b, a)):
            # scaling by a power of two is exact (no overflow / underflow)
            if z3.is_rational_value(k):
                q = abs(k.as_fraction())
                if q != 0 and ((q.numerator == 1 and q.denominator & (q.denominator - 1) == 0) or (q.denominator == 1 and q.numerator & (q.numerator - 1) == 0)):
                    c.facts.append(r == k * other)
        out = GV(r, z3.Or(self.nan, o.nan))
        if same:
            c.facts.append(r >= 0)
            out.sq_of = self
            c.squares.append((r, _abs(a)))
        return out

    __rmul__ = __mul__

    def __truediv__(self, o):
        o = lift(o)
        a, b = self.v, o.v
        r = _fresh("div")
        c = ctx()
        nan = z3.Or(self.nan, o.nan)
        if c.zero_over_zero:
            # x/0 with x != 0 is an infinity (not modelled): assumed away; 0/0 is NaN
            c.assumptions.append(z3.Or(b != 0, a == 0))
            nan = z3.Or(nan, z3.And(a == 0, b == 0))
        else:
            c.assumptions.append(b != 0)
        # (facts about the quotient only where it is a number: b != 0)
        c.facts += [
            z3.Implies(b != 0, f)
            for f in (
                z3.Implies(z3.Or(z3.And(a >= 0, b > 0), z3.And(a <= 0, b < 0)), r >= 0),
                z3.Implies(z3.Or(z3.And(a >= 0, b < 0), z3.And(a <= 0, b > 0)), r <= 0),
                z3.Implies(a == 0, r == 0),
                z3.Implies(b == 1, r == a),
                z3.Implies(b == -1, r == -a),
                z3.Implies(_abs(a) <= _abs(b), _abs(r) <= 1),
                z3.Implies(_abs(a) >= _abs(b), _abs(r) >= 1),
                z3.Implies(_abs(b) >= 1, _abs(r) <= _abs(a)),
                z3.Implies(_abs(b) <= 1, _abs(r) >= _abs(a)),
            )
        ]
        return GV(r, nan)

    def __rtruediv__(self, o):
        return lift(o) / self

    def __pow__(self, n):
        if isinstance(n, float) and n == int(n):
            n = int(n)
        if isinstance(n, int) and n == 2:
            return self * self
        if isinstance(n, int) and n >= 1:
            out = self
            for _ in range(n - 1):
                out = out * self
            return out
        if isinstance(n, int) and n < 0:
            return lift(1) / (self ** (-n))
        if n == 0.5:
            return LIB.sqrt(self)
        if n == -0.5:
            return lift(1) / LIB.sqrt(self)
        raise NotImplementedError(f"power {n!r} in the guard lane")

    def __mod__(self, o):
        # Python / NumPy float remainder for a positive modulus: 0 <= r <= m (r == m happens: -1e-20 % m)
        o = lift(o)
        r = _fresh("mod")
        c = ctx()
        c.assumptions.append(o.v > 0)
        c.facts += [r >= 0, r <= o.v]
        return GV(r, z3.Or(self.nan, o.nan))

    def __abs__(self):
        return GV(_abs(self.v), self.nan)

    # comparisons (NaN compares false)
    def _cmp(self, o, f):
        o = lift(o)
        return GB(z3.And(z3.Not(self.nan), z3.Not(o.nan), f(self.v, o.v)))

    def __lt__(self, o):
        return self._cmp(o, lambda a, b: a < b)

    def __le__(self, o):
        return self._cmp(o, lambda a, b: a <= b)

    def __gt__(self, o):
        return self._cmp(o, lambda a, b: a > b)

    def __ge__(self, o):
        return self._cmp(o, lambda a, b: a >= b)

    def __eq__(self, o):
        return self._cmp(o, lambda a, b: a == b)

    def __ne__(self, o):
        o = lift(o)
        return GB(z3.Or(self.nan, o.nan, self.v != o.v))

    __hash__ = object.__hash__

    def __bool__(self):
        raise NotImplementedError("branch on an abstract value in the guard lane")

    def __float__(self):
        raise NotImplementedError("float() of an abstract value in the guard lane")


class GB:
    def __init__(self, t):
        self.t = t

    def __and__(self, o):
        return GB(z3.And(self.t, o.t if isinstance(o, GB) else z3.BoolVal(bool(o))))

    def __or__(self, o):
        return GB(z3.Or(self.t, o.t if isinstance(o, GB) else z3.BoolVal(bool(o))))

    def __invert__(self):
        return GB(z3.Not(self.t))

    def __mul__(self, o):
        # a truth value used as 0/1
        o = lift(o)
        return GV(z3.If(self.t, o.v, z3.RealVal(0)), z3.And(self.t, o.nan))

    __rmul__ = __mul__

    def __bool__(self):
        raise NotImplementedError("branch on an abstract truth value in the guard lane")


def lift(x):
    if isinstance(x, GV):
        return x
    if isinstance(x, bool):
        x = int(x)
    if isinstance(x, int):
        return GV(z3.RealVal(x))
    if isinstance(x, float):
        if math.isnan(x) or math.isinf(x):
            raise NotImplementedError("non-finite constant in the guard lane")
        from fractions import Fraction

        f = Fraction(x)
        return GV(z3.Q(f.numerator, f.denominator))
    raise NotImplementedError(f"{type(x).__name__} in the guard lane")


class GuardLib:
    pi = math.pi
    inf = float("inf")
    nan = float("nan")

    def __repr__(self):
        return "GuardLib"

    def _ranged(self, name, x, lo=None, hi=None, sign_of=None, extra=None):
        x = lift(x)
        r = _fresh(name)
        c = ctx()
        if lo is not None:
            c.facts.append(r >= lo)
        if hi is not None:
            c.facts.append(r <= hi)
        if sign_of is not None:
            s = sign_of.v
            c.facts += [z3.Implies(s >= 0, r >= 0), z3.Implies(s <= 0, r <= 0), z3.Implies(s == 0, r == 0)]
        if extra:
            c.facts += extra(r)
        return GV(r, x.nan)

    def sqrt(self, x):
        x = lift(x)
        c = ctx()
        c.obligations.append((c.site("sqrt-argument>=0"), z3.And(z3.Not(x.nan), x.v >= 0)))
        r = _fresh("sqrt")
        c.facts += [r >= 0, z3.Implies(x.v >= 1, r >= 1), z3.Implies(x.v <= 1, r <= 1), z3.Implies(x.v == 0, r == 0), z3.Implies(x.v > 0, r > 0)]
        if x.sq_of is not None:
            c.facts.append(r == _abs(x.sq_of.v))
        for s, ax in c.squares:
            c.facts.append(z3.Implies(x.v >= s, r >= ax))
            c.facts.append(z3.Implies(x.v <= s, r <= ax))
        return GV(r, z3.Or(x.nan, x.v < 0))

    def arccos(self, x):
        x = lift(x)
        c = ctx()
        c.obligations.append((c.site("arccos-argument-in[-1,1]"), z3.And(z3.Not(x.nan), x.v >= -1, x.v <= 1)))
        r = _fresh("acos")
        PI = lift(math.pi).v
        c.facts += [r >= 0, r <= PI]
        return GV(r, z3.Or(x.nan, x.v < -1, x.v > 1))

    def arcsin(self, x):
        x = lift(x)
        c = ctx()
        c.obligations.append((c.site("arcsin-argument-in[-1,1]"), z3.And(z3.Not(x.nan), x.v >= -1, x.v <= 1)))
        r = _fresh("asin")
        H = lift(math.pi / 2).v
        c.facts += [r >= -H, r <= H]
        return GV(r, z3.Or(x.nan, x.v < -1, x.v > 1))

    def sin(self, x):
        x = lift(x)
        return self._ranged("sin", x, -1, 1, extra=lambda r: [z3.Implies(x.v == 0, r == 0)])

    def cos(self, x):
        x = lift(x)
        return self._ranged("cos", x, -1, 1, extra=lambda r: [z3.Implies(x.v == 0, r == 1)])

    def tan(self, x):
        x = lift(x)
        return self._ranged("tan", x, extra=lambda r: [z3.Implies(x.v == 0, r == 0)])

    def tanh(self, x):
        return self._ranged("tanh", x, -1, 1, sign_of=lift(x))

    def sinh(self, x):
        return self._ranged("sinh", x, sign_of=lift(x))

    def arcsinh(self, x):
        return self._ranged("asinh", x, sign_of=lift(x))

    def cosh(self, x):
        x = lift(x)
        return self._ranged("cosh", x, 1, extra=lambda r: [z3.Implies(x.v == 0, r == 1)])

    def exp(self, x):
        x = lift(x)
        return self._ranged("exp", x, 0, extra=lambda r: [z3.Implies(x.v == 0, r == 1)])

    def log(self, x):
        return self._ranged("log", x)

    def arctan(self, x):
        H = lift(math.pi / 2).v
        return self._ranged("atan", x, -H, H, sign_of=lift(x))

    def arctan2(self, y, x):
        y, x = lift(y), lift(x)
        PI = lift(math.pi).v
        r = _fresh("atan2")
        c = ctx()
        # (strict: atan2(-0.0, x < 0) is -pi although -0.0 denotes the number 0)
        c.facts += [r >= -PI, r <= PI, z3.Implies(y.v > 0, r >= 0), z3.Implies(y.v < 0, r <= 0)]
        return GV(r, z3.Or(y.nan, x.nan))

    def absolute(self, x):
        return abs(lift(x))

    def sign(self, x):
        x = lift(x)
        return GV(z3.If(x.v > 0, z3.RealVal(1), z3.If(x.v < 0, z3.RealVal(-1), z3.RealVal(0))), x.nan)

    def copysign(self, a, b):
        a, b = lift(a), lift(b)
        # (the sign of a zero b is not modelled: both signs allowed)
        r = _fresh("copysign")
        c = ctx()
        c.facts += [_abs(r) == _abs(a.v), z3.Implies(b.v > 0, r >= 0), z3.Implies(b.v < 0, r <= 0)]
        return GV(r, a.nan)

    def maximum(self, a, b):
        a, b = lift(a), lift(b)
        return GV(z3.If(a.v >= b.v, a.v, b.v), z3.Or(a.nan, b.nan))

    def minimum(self, a, b):
        a, b = lift(a), lift(b)
        return GV(z3.If(a.v <= b.v, a.v, b.v), z3.Or(a.nan, b.nan))

    def nan_to_num(self, x, nan=0.0, posinf=None, neginf=None):
        x = lift(x)
        n = lift(nan)
        return GV(z3.If(x.nan, n.v, x.v), z3.BoolVal(False))

    def where(self, cond, a, b):
        a, b = lift(a), lift(b)
        t = cond.t if isinstance(cond, GB) else z3.BoolVal(bool(cond))
        return GV(z3.If(t, a.v, b.v), z3.If(t, a.nan, b.nan))

    def isnan(self, x):
        return GB(lift(x).nan)


LIB = GuardLib()


def run_kernel(fn, kinds):
    """execute fn(lib, *coords) on abstract finite inputs.  kinds: per coordinate 'real' | 'pos' | 'nonneg' | 'theta' | 'phi'.
    returns (GCtx, inputs, result)"""
    c = GCtx()
    CTX[0] = c
    PI = lift(math.pi).v
    ins = []
    for i, k in enumerate(kinds):
        v = z3.Real(f"in{i}")
        if k == "pos":
            c.assumptions.append(v > 0)
        elif k == "nonneg":
            c.assumptions.append(v >= 0)
        elif k == "theta":
            c.assumptions += [v > 0, v < PI]
        elif k == "phi":
            c.assumptions += [v >= -PI, v <= PI]
        ins.append(GV(v))
    res = fn(LIB, *ins)
    return c, ins, res
