"""Symbolic scalar engine.

`Sym` is a formal fraction N/D of z3 real polynomial terms over *generators* (input variables
and the variables introduced for transcendental function applications).  The `SymLib` object is a
numpy-like `lib` that builds terms instead of numbers; every transcendental application
introduces generators constrained by facts that are true of the real function, so `unsat`
transfers to the real function and `sat` is only a candidate (replayed concretely).

See DESIGN.md section 2.
"""
from __future__ import annotations

import fractions
import itertools
import numbers
import time

import z3

Fraction = fractions.Fraction


class Unsupported(Exception):
    """construct outside the encodable fragment -> obligation is inconclusive, never passed"""


class SymbolicBranch(Unsupported):
    """the code under test branched on a symbolic value"""


class NotSym(TypeError):
    pass


def rv(v):
    return z3.RealVal(v)


def simp(t):
    return z3.simplify(t, som=True)


def _vars_of(t, acc=None, seen=None):
    """names of uninterpreted constants in a z3 term"""
    if acc is None:
        acc, seen = set(), set()
    stack = [t]
    while stack:
        u = stack.pop()
        i = u.get_id()
        if i in seen:
            continue
        seen.add(i)
        if z3.is_const(u) and u.decl().kind() == z3.Z3_OP_UNINTERPRETED:
            acc.add(u.decl().name())
        else:
            stack.extend(u.children())
    return acc


class Fact:
    __slots__ = ("f", "kind", "gens", "stamp", "label")

    def __init__(self, f, kind, stamp, label=""):
        self.f = f
        self.kind = kind  # rel | rng | quad | defd
        self.stamp = stamp
        self.label = label
        self.gens = None  # filled lazily: generator names (non-input vars)


class Stats:
    def __init__(self):
        self.queries = 0
        self.solver_s = 0.0
        self.by_kind = {}
        self.cegar_iters = 0
        self.prune_q = 0
        self.merge_q = 0

    def add(self, kind, dt):
        self.queries += 1
        self.solver_s += dt
        k = self.by_kind.setdefault(kind, [0, 0.0])
        k[0] += 1
        k[1] += dt

    def as_dict(self):
        return {
            "queries": self.queries,
            "solver_s": round(self.solver_s, 3),
            "by_kind": {k: [v[0], round(v[1], 3)] for k, v in self.by_kind.items()},
            "cegar_iters": self.cegar_iters,
            "prune_q": self.prune_q,
            "merge_q": self.merge_q,
        }


GLOBAL_STATS = Stats()


class Ctx:
    """One symbolic run: inputs, domain, generators and their facts."""

    def __init__(self, timeout_ms=10000, small_ms=1500):
        self.timeout_ms = timeout_ms
        self.small_ms = small_ms
        self.facts: list[Fact] = []
        self.dom: list = []
        self.dom_simple: list = []
        self.links: list = []  # (z3 var, power, Sym expr): definitional equalities var**power == expr (abstraction of operands)
        self.angle_links: list = []  # (coarse cos var, coarse sin var, polynomial in the finer atom's cos/sin)
        self.fp_inputs: dict = {}  # input name -> z3 Float64 constant (FP lane)
        self.inputs: dict[str, tuple] = {}  # name -> (z3 var, kind)
        self.keep: list = []  # keep z3 terms alive (AST ids are reused after free)
        self.cache: dict = {}
        self.n = 0
        self.stamp = 0
        self.pi = z3.Real("pi")
        self.add_fact(z3.And(self.pi > rv("3.14159"), self.pi < rv("3.1416")), "rel", "pi")
        self.angles: dict = {}  # (atom id, den) -> (term, c, s)
        self.angle_windows: list = []  # (z3 term, lo, hi, lo_strict, hi_strict) known windows
        self.exps: dict = {}  # (atom id, den) -> (term, E)
        self.sqrts: list = []  # (r, N, D, k) root generators: r >= 0, r^k * D == N
        self.logs: list = []  # (L term, u Sym)
        self.atan2s: list = []
        self.stats = GLOBAL_STATS
        self.prune_cache: dict = {}
        self.gen_names: set = set()
        self.finalized_exps = 0
        self.finalized_angles = 0
        import mpmath as _mp

        self.shadows = [{"pi": +_mp.pi}, {"pi": +_mp.pi}]
        self.shadow_cache = [{}, {}]
        self.shadow_state = [(True, 0, 0), (True, 0, 0)]
        self.shadow_skips = 0
        self.no_solver_in_execution = False

    # -- numeric shadows -----------------------------------------------------------------
    # Two concrete points of the input space at which every generator gets the value of the
    # true function.  They are used only to *skip* solver queries that cannot succeed (a merge or
    # a pruning whose condition is false at a point of the domain is not entailed); every
    # decision that is acted upon still comes from an `unsat`.
    def shadow_set(self, var, fn):
        """fn(k) -> numeric value of the generator at shadow k"""
        name = var.decl().name()
        for k, sh in enumerate(self.shadows):
            try:
                v = fn(k)
                import mpmath as mp

                if v is not None and (mp.isnan(v) or mp.isinf(v)):
                    v = None
                sh[name] = v
            except Exception:
                sh[name] = None

    def num(self, t, k):
        """numeric value of z3 term t at shadow k (mpf, bool or None when unknown/uncertain)"""
        sh = self.shadows[k]
        cache = self.shadow_cache[k]
        stack = [t]
        while stack:
            u = stack[-1]
            i = u.get_id()
            if i in cache:
                stack.pop()
                continue
            ch = u.children()
            missing = [x for x in ch if x.get_id() not in cache]
            if missing:
                stack.extend(missing)
                continue
            stack.pop()
            self.keep.append(u)
            cache[i] = self._num1(u, [cache[x.get_id()] for x in ch], sh)
        return cache[t.get_id()]

    def _num1(self, u, a, sh):
        import mpmath as mp

        try:
            if z3.is_rational_value(u):
                return mp.mpf(u.numerator_as_long()) / mp.mpf(u.denominator_as_long())
            if z3.is_true(u):
                return True
            if z3.is_false(u):
                return False
            k = u.decl().kind()
            if k == z3.Z3_OP_UNINTERPRETED and not a:
                return sh.get(u.decl().name())
            if any(x is None for x in a):
                if k == z3.Z3_OP_AND and any(x is False for x in a):
                    return False
                if k == z3.Z3_OP_OR and any(x is True for x in a):
                    return True
                if k == z3.Z3_OP_ITE and a[0] is not None:
                    return a[1] if a[0] else a[2]
                if k == z3.Z3_OP_IMPLIES and (a[0] is False or a[1] is True):
                    return True
                return None
            if k == z3.Z3_OP_ADD:
                return mp.fsum(a)
            if k == z3.Z3_OP_SUB:
                r = a[0]
                for x in a[1:]:
                    r = r - x
                return r
            if k == z3.Z3_OP_MUL:
                r = a[0]
                for x in a[1:]:
                    r = r * x
                return r
            if k == z3.Z3_OP_DIV:
                return a[0] / a[1] if a[1] != 0 else None
            if k == z3.Z3_OP_UMINUS:
                return -a[0]
            if k == z3.Z3_OP_POWER:
                return a[0] ** a[1]
            if k == z3.Z3_OP_ITE:
                return a[1] if a[0] else a[2]
            if k in (z3.Z3_OP_EQ, z3.Z3_OP_DISTINCT, z3.Z3_OP_LE, z3.Z3_OP_LT, z3.Z3_OP_GE, z3.Z3_OP_GT):
                x, y = a
                if isinstance(x, bool) or isinstance(y, bool):
                    return (x == y) if k == z3.Z3_OP_EQ else (x != y)
                d = abs(x - y)
                close = d <= mp.mpf("1e-25") * (1 + abs(x) + abs(y))
                if k == z3.Z3_OP_EQ:
                    return bool(close)
                if k == z3.Z3_OP_DISTINCT:
                    return not close
                if close:
                    return None  # on the boundary: let the solver decide
                return bool({z3.Z3_OP_LE: x <= y, z3.Z3_OP_LT: x < y, z3.Z3_OP_GE: x >= y, z3.Z3_OP_GT: x > y}[k])
            if k == z3.Z3_OP_AND:
                return all(a)
            if k == z3.Z3_OP_OR:
                return any(a)
            if k == z3.Z3_OP_NOT:
                return not a[0]
            if k == z3.Z3_OP_IMPLIES:
                return (not a[0]) or a[1]
            if k == z3.Z3_OP_XOR:
                return a[0] != a[1]
        except Exception:
            return None
        return None

    def shadow_ok(self, k):
        """is shadow k inside the domain asserted so far (and every definedness condition)?"""
        n = len(self.dom)
        ok, seen_dom, seen_f = self.shadow_state[k]
        if ok is False:
            return False
        for d in self.dom[seen_dom:]:
            if self.num(d, k) is not True:
                self.shadow_state[k] = (False, n, seen_f)
                return False
        nf = len(self.facts)
        for f in self.facts[seen_f:]:
            if f.kind == "defd" and self.num(f.f, k) is not True:
                self.shadow_state[k] = (False, n, nf)
                return False
        self.shadow_state[k] = (True, n, nf)
        return True

    def shadow_refutes(self, f):
        """True when f is false at a shadow point lying in the domain: f cannot be entailed"""
        for k in range(len(self.shadows)):
            if self.shadow_ok(k) and self.num(f, k) is False:
                return True
        return False

    # -- bookkeeping ---------------------------------------------------------------------
    def fresh(self, p):
        self.n += 1
        v = z3.Real(f"{p}!{self.n}")
        self.gen_names.add(v.decl().name())
        return v

    def tick(self):
        self.stamp += 1
        return self.stamp

    def add_fact(self, f, kind, label=""):
        self.facts.append(Fact(f, kind, self.tick(), label))

    def add_dom(self, f, simple=False):
        """domain assumption.  Bounds on a single input go into every query; anything else is
        refined in lazily like the facts (kind 'dom')."""
        if isinstance(f, SymBool):
            f = f.t
        self.dom.append(f)
        if simple:
            self.dom_simple.append(f)
            self.tick()
        else:
            self.add_fact(f, "dom", "assumption")

    def input(self, name, kind="real"):
        if name in self.inputs:
            return Sym(self.inputs[name][0])
        v = z3.Real(name)
        self.inputs[name] = (v, kind)
        import mpmath as _mp

        for k, sh in enumerate(self.shadows):
            sh[name] = _shadow_input(name, kind, k, len(self.inputs))
        return Sym(v)

    def fact_gens(self, fact):
        if fact.gens is None:
            fact.gens = frozenset(n for n in _vars_of(fact.f) if n in self.gen_names)
        return fact.gens

    # -- solver ---------------------------------------------------------------------------
    def _check(self, cons, timeout_ms, kind):
        s = z3.Solver()
        s.set("timeout", int(timeout_ms))
        for c in cons:
            s.add(c)
        t0 = time.time()
        r = str(s.check())
        self.stats.add(kind, time.time() - t0)
        return r, s

    def prove(self, goal, timeout_ms=None, upto=None, kind="prove", assume_defd=True, max_iter=40, all_relevant=False):
        """two stages: relevance from the goal's generators only; if that leaves an abstract counterexample ('sat'), once more
        with the generators mentioned by the domain assumptions active from the start (an assumption the model happens to
        satisfy still ties its generators, e.g. cos/sin of a stored angle, to the goal)"""
        r = self._prove(goal, timeout_ms, upto, kind, assume_defd, max_iter, all_relevant, seed_dom=False)
        if r[0] == "sat" and kind in ("prove", "defd") and not all_relevant and any(f.kind == "dom" and self.fact_gens(f) for f in self.facts):
            r2 = self._prove(goal, timeout_ms, upto, kind, assume_defd, max_iter, all_relevant, seed_dom=True)
            if r2[0] != "unknown":
                return r2
        return r

    def _prove(self, goal, timeout_ms=None, upto=None, kind="prove", assume_defd=True, max_iter=40, all_relevant=False, seed_dom=True):
        """CEGAR over the fact set: returns (verdict, model_or_None, info).
        verdict 'unsat' = goal is entailed (sound whatever subset was used);
        'sat' = abstract counterexample satisfying every relevant fact; 'unknown'."""
        timeout_ms = timeout_ms or self.timeout_ms
        self.finalize()
        ngoal = z3.Not(goal)
        base = list(self.dom_simple) + [ngoal]
        pool = [
            f
            for f in self.facts
            if (upto is None or f.stamp < upto or f.kind == "dom") and (assume_defd or f.kind != "defd")
        ]
        active_gens = set(n for n in _vars_of(goal) if n in self.gen_names)
        if all_relevant:
            active_gens = set(self.gen_names)
        # relevance = the connected component (facts sharing generators) of the goal's generators:
        # a satisfied fact still ties the values of all its generators together
        def close():
            changed = True
            while changed:
                changed = False
                for f in pool:
                    g = self.fact_gens(f)
                    if g and (g & active_gens) and not (g <= active_gens):
                        active_gens.update(g)
                        changed = True

        goal_gens = set(active_gens)
        # domain assumptions are always relevant, so the generators they mention are too (an assumption that the
        # current model happens to satisfy still constrains them)
        if seed_dom:
            for f in pool:
                if f.kind == "dom":
                    active_gens.update(self.fact_gens(f))
        close()
        # distance of every fact from the goal in the generator-sharing graph
        layer = {}
        frontier = set(goal_gens)
        remaining = list(pool)
        depth = 0
        while remaining:
            now, later = [], []
            for f in remaining:
                g = self.fact_gens(f)
                (now if (not g or (g & frontier)) else later).append(f)
            if not now:
                for f in later:
                    layer[id(f)] = depth + 5
                break
            for f in now:
                layer[id(f)] = depth
                frontier |= self.fact_gens(f)
            remaining = later
            depth += 1
        added: list[Fact] = []
        added_ids = set()
        deadline = time.time() + 4 * timeout_ms / 1000.0
        it = 0
        last = "unknown"
        while True:
            it += 1
            self.stats.cegar_iters += 1
            r, s = self._check(base + [f.f for f in added], timeout_ms, kind)
            last = r
            if r == "unsat":
                return "unsat", None, {"iters": it, "facts": len(added)}
            if r != "sat":
                break
            m = s.model()
            newly = []
            for f in pool:
                if id(f) in added_ids:
                    continue
                g = self.fact_gens(f)
                if f.kind != "dom" and g and not (g & active_gens):
                    continue  # (domain assumptions constrain the inputs: always relevant)
                try:
                    ok = z3.is_true(m.eval(f.f, model_completion=True))
                except z3.Z3Exception:
                    ok = False
                if not ok:
                    newly.append(f)
            if not newly:
                return "sat", m, {"iters": it, "facts": len(added)}
            # add violated relations first; ranges / quadrant facts only when no relation is violated
            # nearest facts first (those that speak about the goal's own generators); relations before
            # ranges and quadrant facts within a layer
            lo = min(layer.get(id(f), 99) for f in newly)
            near = [f for f in newly if layer.get(id(f), 99) == lo]
            rels = [f for f in near if f.kind in ("rel", "defd", "dom")]
            chosen = rels if rels else near
            for f in chosen:
                added.append(f)
                added_ids.add(id(f))
                active_gens.update(self.fact_gens(f))
            close()
            if it >= max_iter or time.time() > deadline:
                break
        # fallback: every relevant fact at once
        if last != "unsat":
            rel_all = [f for f in pool if f.kind == "dom" or (not self.fact_gens(f)) or (self.fact_gens(f) & active_gens)]
            r, s = self._check(base + [f.f for f in rel_all], timeout_ms, kind + "_all")
            if r == "unsat":
                return "unsat", None, {"iters": it, "facts": len(rel_all), "fallback": True}
            if r == "sat":
                return "sat", s.model(), {"iters": it, "facts": len(rel_all), "fallback": True}
        return "unknown", None, {"iters": it, "facts": len(added)}

    def entails(self, f, kind="prune"):
        """cheap entailment used for if-then-else pruning and generator merging"""
        if self.no_solver_in_execution:
            return False  # structural runs: keep every if-then-else, create every generator
        key = f.get_id()
        if key in self.prune_cache:
            return self.prune_cache[key][1]
        if self.shadow_refutes(f):
            self.shadow_skips += 1
            self.prune_cache[key] = (f, False)
            return False
        r, _, _ = self.prove(f, timeout_ms=self.small_ms, kind=kind, max_iter=8)
        res = r == "unsat"
        self.prune_cache[key] = (f, res)
        return res

    def finalize(self):
        """pairwise monotonicity / injectivity of exponent atoms (added lazily)"""
        es = list(self.exps.values())
        old = es[: self.finalized_exps]
        new = es[self.finalized_exps :]
        for (a, Ea), (b, Eb) in [(x, y) for x in new for y in old] + list(itertools.combinations(new, 2)):
            self.add_fact(z3.And((Ea == Eb) == (a == b), (Ea < Eb) == (a < b)), "rng", "exp-mono")
            self.add_fact(z3.And((Ea * Eb == 1) == (a + b == 0), (Ea * Eb < 1) == (a + b < 0)), "rng", "exp-mono-neg")
        self.finalized_exps = len(es)
        # functional consistency of (cos, sin) between angle atoms
        an = [(t, cs, sn) for (aid, den), (t, cs, sn) in self.angles.items()]
        if len(an) != self.finalized_angles:
            old, new = an[: self.finalized_angles], an[self.finalized_angles :]
            pairs = [(x, y) for x in new for y in old] + list(itertools.combinations(new, 2))
            for (ta, ca, sa), (tb, cb, sb) in pairs:
                self.add_fact(z3.Implies(ta == tb, z3.And((ca == cb).t, (sa == sb).t)), "rng", "angle-congruence")
            self.finalized_angles = len(an)


_SHADOW_VALUES = {
    "real": ["0.7391", "-1.3127", "2.1913", "-0.3571", "1.6843", "-2.2719", "0.4127", "3.0911"],
    "angle": ["0.9173", "-2.1371", "4.0193", "-0.6131", "1.7717", "-5.1173", "2.9131", "0.3319"],
    "pos": ["1.3171", "0.2713", "2.9173", "0.7919", "1.9391", "3.4337"],
    "nonneg": ["0.6173", "2.5391", "1.1937", "0.3791", "1.7713"],
    "tol": ["0.0131", "0.1173", "0.0017", "0.2391"],
    "phi": ["-1.1371", "2.0193", "0.3391", "-2.7113", "2.9173", "-0.4717"],
    "theta": ["0.8173", "2.0391", "1.3717", "2.7131", "0.3913"],
    "beta": ["0.3173", "-0.6391", "0.1931", "0.8117", "-0.2713"],
    "gamma": ["1.5173", "-2.0391", "3.1937", "-1.1371"],
    "nonzero": ["-1.2173", "2.0391", "0.3371", "-0.2519"],
    "small": ["0.2173", "-0.5391", "0.7131", "-0.1319"],
}


def _shadow_input(name, kind, k, idx):
    import mpmath as mp

    vals = _SHADOW_VALUES[kind]
    h = sum(ord(ch) * (i + 3) for i, ch in enumerate(name))
    return mp.mpf(vals[(h + 5 * k + idx) % len(vals)]) * (1 + mp.mpf(k) / 7) if kind in ("real", "angle", "pos", "nonneg") else mp.mpf(vals[(h + 5 * k + idx) % len(vals)])


CTX: Ctx | None = None


def new_ctx(**kw) -> Ctx:
    global CTX
    CTX = Ctx(**kw)
    return CTX


def ctx() -> Ctx:
    assert CTX is not None
    return CTX


# ------------------------------------------------------------------------------------------
# symbolic booleans and scalars
# ------------------------------------------------------------------------------------------


def lb(o):
    if isinstance(o, SymBool):
        return o.t
    if isinstance(o, (bool,)):
        return z3.BoolVal(o)
    if hasattr(o, "dtype") and getattr(o, "shape", None) == () and o.dtype == bool:
        return z3.BoolVal(bool(o))
    raise NotSym(type(o))


def _ni(f):
    def g(self, o):
        try:
            return f(self, o)
        except NotSym:
            return NotImplemented

    g.__name__ = f.__name__
    return g


class SymBool:
    shape = ()

    def __init__(self, t):
        self.t = t

    def __and__(self, o):
        return SymBool(z3.And(self.t, lb(o)))

    __rand__ = __and__

    def __or__(self, o):
        return SymBool(z3.Or(self.t, lb(o)))

    __ror__ = __or__

    def __xor__(self, o):
        return SymBool(z3.Xor(self.t, lb(o)))

    __rxor__ = __xor__

    def __invert__(self):
        return SymBool(z3.Not(self.t))

    def __eq__(self, o):
        return SymBool(self.t == lb(o))

    def __ne__(self, o):
        return SymBool(self.t != lb(o))

    def __hash__(self):
        return id(self)

    def __bool__(self):
        raise SymbolicBranch("code branched on a symbolic boolean")

    def __mul__(self, o):
        if isinstance(o, float) and (o != o or abs(o) == float("inf")):
            return Singular()
        if isinstance(o, Singular):
            return o
        return Sym(z3.If(self.t, rv(1), rv(0))) * o

    __rmul__ = __mul__

    def __repr__(self):
        return f"SymBool({self.t})"


for _m in ("__and__", "__rand__", "__or__", "__ror__", "__xor__", "__rxor__", "__eq__", "__ne__"):
    setattr(SymBool, _m, _ni(getattr(SymBool, _m)))


class Singular:
    """inf/nan default values; only meaningful as nan_to_num defaults (ignored in the regular domain)"""

    def _s(self, *a):
        return self

    __add__ = __radd__ = __sub__ = __rsub__ = __mul__ = __rmul__ = __truediv__ = __rtruediv__ = _s
    __neg__ = __pos__ = _s


def S(v):
    if isinstance(v, Sym):
        return v
    if isinstance(v, SymBool):
        return Sym(z3.If(v.t, rv(1), rv(0)))
    if isinstance(v, bool):
        return Sym(rv(int(v)))
    if isinstance(v, int):
        return Sym(rv(v), None, v >= 0)
    if isinstance(v, float):
        if v != v or abs(v) == float("inf"):
            raise Unsupported("singular constant in arithmetic")
        fr = Fraction(v)
        return Sym(rv(fr.numerator), rv(fr.denominator), v >= 0)
    if isinstance(v, Fraction):
        return Sym(rv(v.numerator), rv(v.denominator), v >= 0)
    if z3.is_expr(v):
        return Sym(v)
    if hasattr(v, "dtype") and getattr(v, "shape", None) == () and v.dtype.kind in "iuf":
        return S(v.item())
    raise NotSym(type(v))


def _is_one(d):
    return z3.is_rational_value(d) and d.numerator_as_long() == d.denominator_as_long()


_KNOWN_POW = {0.5: (1, 2), -0.5: (-1, 2), 0.25: (1, 4), 0.16666666666666666: (1, 6), 1.5: (3, 2)}


class Sym:
    shape = ()
    ndim = 0

    def __init__(self, n, d=None, nn=False):
        self.n = n
        self.d = d if d is not None else rv(1)
        self.nn = nn  # known to be >= 0 wherever defined (compositional, syntactic)

    @property
    def isint(self):
        return _is_one(self.d)

    @property
    def dtype(self):
        import numpy

        return numpy.dtype(object)

    def term(self):
        if self.isint:
            return self.n
        return self.n / self.d

    def __add__(self, o):
        if isinstance(o, Singular):
            return o
        o = S(o)
        nn = self.nn and o.nn
        if z3.eq(self.d, o.d):
            return Sym(self.n + o.n, self.d, nn)
        if o.isint:
            return Sym(self.n + o.n * self.d, self.d, nn)
        if self.isint:
            return Sym(self.n * o.d + o.n, o.d, nn)
        return Sym(self.n * o.d + o.n * self.d, self.d * o.d, nn)

    __radd__ = __add__

    def __neg__(self):
        return Sym(-self.n, self.d)

    def __pos__(self):
        return self

    def __abs__(self):
        return LIB.absolute(self)

    def __sub__(self, o):
        if isinstance(o, Singular):
            return o
        return self + (-S(o))

    def __rsub__(self, o):
        return S(o) + (-self)

    def __mul__(self, o):
        if isinstance(o, Singular):
            return o
        same = o is self
        o = S(o)
        nn = same or (self.nn and o.nn) or (z3.eq(self.n, o.n) and z3.eq(self.d, o.d))
        if o.isint and self.isint:
            return Sym(self.n * o.n, None, nn)
        if o.isint:
            return Sym(self.n * o.n, self.d, nn)
        if self.isint:
            return Sym(self.n * o.n, o.d, nn)
        return Sym(self.n * o.n, self.d * o.d, nn)

    __rmul__ = __mul__

    def __truediv__(self, o):
        if isinstance(o, Singular):
            return o
        o = S(o)
        nz = simp(o.n)
        nn = self.nn and o.nn
        if z3.is_rational_value(nz):
            if nz.numerator_as_long() == 0:
                raise Unsupported("division by literal zero")
            r = self * Sym(o.d, nz)
            r.nn = nn
            return r
        if o.isint:
            if self.isint:
                return Sym(self.n, o.n, nn)
            return Sym(self.n, self.d * o.n, nn)
        return Sym(self.n * o.d, self.d * o.n, nn)

    def __rtruediv__(self, o):
        return S(o) / self

    def __pow__(self, o):
        if isinstance(o, Sym):
            t = simp(o.term())
            if z3.is_rational_value(t):
                o = Fraction(t.numerator_as_long(), t.denominator_as_long())
                if o.denominator == 1:
                    o = int(o)
                else:
                    o = float(o)
            else:
                raise Unsupported("symbolic exponent")
        if hasattr(o, "dtype") and getattr(o, "shape", None) == ():
            o = o.item()
        if isinstance(o, float) and o == int(o):
            o = int(o)
        if isinstance(o, int) and not isinstance(o, bool):
            if o < 0:
                return 1 / (self ** (-o))
            r = Sym(rv(1), None, True)
            for _ in range(o):
                r = r * self
            if o % 2 == 0:
                r.nn = True
            return r
        if isinstance(o, float):
            for k, (p, q) in _KNOWN_POW.items():
                if abs(o - k) < 1e-15:
                    r = LIB.root(self, q)
                    return r**p
        raise Unsupported(f"power {o!r}")

    def __rpow__(self, o):
        raise Unsupported("symbolic exponent")

    def __mod__(self, o):
        return LIB.mod(self, o)

    def _cmp(self, o, op):
        o = S(o)
        use(self)
        use(o)
        if self.isint and o.isint:
            return SymBool(op(self.n, o.n))
        # a/b op c/d with b,d != 0 : multiply by b^2 d^2 > 0
        if o.isint:
            return SymBool(op(self.n * self.d, o.n * self.d * self.d))
        if self.isint:
            return SymBool(op(self.n * o.d * o.d, o.n * o.d))
        return SymBool(op(self.n * self.d * o.d * o.d, o.n * o.d * self.d * self.d))

    def __eq__(self, o):
        o = S(o)
        use(self)
        use(o)
        if z3.eq(self.d, o.d):
            return SymBool(self.n - o.n == 0)
        return SymBool(self.n * o.d - o.n * self.d == 0)

    def __ne__(self, o):
        o = S(o)
        use(self)
        use(o)
        if z3.eq(self.d, o.d):
            return SymBool(self.n - o.n != 0)
        return SymBool(self.n * o.d - o.n * self.d != 0)

    def __lt__(self, o):
        return self._cmp(o, lambda a, b: a < b)

    def __le__(self, o):
        return self._cmp(o, lambda a, b: a <= b)

    def __gt__(self, o):
        return self._cmp(o, lambda a, b: a > b)

    def __ge__(self, o):
        return self._cmp(o, lambda a, b: a >= b)

    def __hash__(self):
        return id(self)

    def __bool__(self):
        raise SymbolicBranch("code branched on a symbolic value")

    def __float__(self):
        raise SymbolicBranch("code converted a symbolic value to float")

    __int__ = __index__ = __float__

    def __repr__(self):
        s = str(simp(self.n))
        if not self.isint:
            s += " / " + str(simp(self.d))
        return f"Sym({s[:200]})"


# NumPy ufuncs applied to object arrays call methods of these names on the elements
for _fn in ("sqrt", "cbrt", "sin", "cos", "tan", "exp", "log", "arctan", "arccos", "arcsin", "sinh", "cosh", "tanh", "arcsinh"):
    setattr(Sym, _fn, (lambda name: (lambda self: getattr(LIB, name)(self)))(_fn))
numbers.Real.register(Sym)
for _m in (
    "__add__ __radd__ __sub__ __rsub__ __mul__ __rmul__ __truediv__ __rtruediv__ "
    "__eq__ __ne__ __lt__ __le__ __gt__ __ge__ __mod__"
).split():
    setattr(Sym, _m, _ni(getattr(Sym, _m)))


def use(v):
    """a fraction N/D is consumed as a value (compared, passed to a function, returned): D != 0
    becomes a definedness condition.  Divisions themselves are formal (projective), which is
    what IEEE arithmetic does with 1/inf = 0, e.g. rho / tan(theta) at theta = pi/2."""
    if not isinstance(v, Sym) or v.isint:
        return v
    c = ctx()
    d = v.d
    key = ("use", d.get_id())
    if key in c.cache:
        return v
    c.cache[key] = True
    c.keep.append(d)
    ds = simp(d)
    if z3.is_rational_value(ds):
        if ds.numerator_as_long() == 0:
            raise Unsupported("literal zero denominator")
        return v
    c.add_fact(d != 0, "defd", "division")
    return v


def _find_ite(t, seen=None):
    """first if-then-else subterm of a z3 term (depth-first), or None"""
    stack = [t]
    seen = set()
    while stack:
        u = stack.pop()
        i = u.get_id()
        if i in seen:
            continue
        seen.add(i)
        if z3.is_app(u) and u.decl().kind() == z3.Z3_OP_ITE:
            return u
        stack.extend(u.children())
    return None


def lift_ite(t, fn, depth=0):
    """fn(term without if-then-else) -> Sym or tuple of Syms; distributes over the ites of t"""
    it = _find_ite(t)
    if it is None:
        return fn(t)
    if depth > 4:
        raise Unsupported("more than 4 nested if-then-else in a function argument")
    cnd, a, b = it.children()
    ta = z3.simplify(z3.substitute(t, (it, a)), som=False)
    tb = z3.simplify(z3.substitute(t, (it, b)), som=False)
    ctx().keep += [ta, tb, cnd]
    c = ctx()
    if c.entails(cnd):
        return lift_ite(ta, fn, depth + 1)
    if c.entails(z3.Not(cnd)):
        return lift_ite(tb, fn, depth + 1)
    ra = lift_ite(ta, fn, depth + 1)
    rb = lift_ite(tb, fn, depth + 1)
    if isinstance(ra, tuple):
        return tuple(ite(cnd, x, y) for x, y in zip(ra, rb))
    return ite(cnd, ra, rb)


def ite(cond, a, b):
    """solver-pruned if-then-else on Sym values (cond: z3 Bool)"""
    c = ctx()
    c.stats.prune_q += 1
    cs = z3.simplify(cond)
    if z3.is_true(cs):
        return a
    if z3.is_false(cs):
        return b
    if c.entails(cond):
        return a
    if c.entails(z3.Not(cond)):
        return b
    a, b = S(a), S(b)
    if z3.eq(a.d, b.d):
        return Sym(z3.If(cond, a.n, b.n), a.d)
    return Sym(z3.If(cond, a.n * b.d, b.n * a.d), a.d * b.d)


# ------------------------------------------------------------------------------------------
# linear forms (angles and exponents)
# ------------------------------------------------------------------------------------------


def _q(v):
    return Fraction(v.numerator_as_long(), v.denominator_as_long())


def _lin(t, allow_const=False):
    """decompose z3 real term into ({atom id: (atom, coef)}, pi coefficient, rational constant)"""
    c = ctx()
    k = t.decl().kind() if z3.is_app(t) else None
    if z3.is_rational_value(t):
        return {}, Fraction(0), _q(t)
    if z3.eq(t, c.pi):
        return {}, Fraction(1), Fraction(0)

    def merge(a, b, sign=1):
        a = dict(a)
        for i, (at, co) in b.items():
            a[i] = (at, a[i][1] + sign * co) if i in a else (at, sign * co)
        return {i: v for i, v in a.items() if v[1] != 0}

    if k == z3.Z3_OP_ADD:
        atoms, pc, kc = {}, Fraction(0), Fraction(0)
        for ch in t.children():
            a, p, q = _lin(ch)
            pc += p
            kc += q
            atoms = merge(atoms, a)
        return atoms, pc, kc
    if k == z3.Z3_OP_SUB:
        ch = t.children()
        atoms, pc, kc = _lin(ch[0])
        for c2 in ch[1:]:
            b, p, q = _lin(c2)
            pc -= p
            kc -= q
            atoms = merge(atoms, b, -1)
        return atoms, pc, kc
    if k == z3.Z3_OP_UMINUS:
        a, pc, kc = _lin(t.children()[0])
        return {i: (at, -co) for i, (at, co) in a.items()}, -pc, -kc
    if k == z3.Z3_OP_MUL:
        ch = t.children()
        consts = [x for x in ch if z3.is_rational_value(x)]
        rest = [x for x in ch if not z3.is_rational_value(x)]
        if len(rest) == 1:
            f = Fraction(1)
            for x in consts:
                f *= _q(x)
            a, pc, kc = _lin(rest[0])
            return {i: (at, co * f) for i, (at, co) in a.items()}, pc * f, kc * f
        if len(rest) == 0:
            f = Fraction(1)
            for x in consts:
                f *= _q(x)
            return {}, Fraction(0), f
    if k == z3.Z3_OP_DIV:
        a0, b0 = t.children()
        if z3.is_rational_value(b0):
            f = 1 / _q(b0)
            a, pc, kc = _lin(a0)
            return {i: (at, co * f) for i, (at, co) in a.items()}, pc * f, kc * f
    if k == z3.Z3_OP_ITE and not c.no_solver_in_execution:
        raise Unsupported("if-then-else inside an angle / exponent argument")
    c.keep.append(t)
    return {t.get_id(): (t, Fraction(1))}, Fraction(0), Fraction(0)


def quadrant(a, cs, sn):
    """sound sign facts of (cos a, sin a) by the quadrant of the real value a"""
    c = ctx()
    pi = c.pi
    cs, sn = S(cs), S(sn)

    def pos(v):
        return (v > 0).t

    def neg(v):
        return (v < 0).t

    fs = [
        z3.Implies(z3.And(a > 0, a < pi), pos(sn)),
        z3.Implies(z3.And(a > -pi, a < 0), neg(sn)),
        z3.Implies(z3.And(a > pi, a < 2 * pi), neg(sn)),
        z3.Implies(z3.And(a > -2 * pi, a < -pi), pos(sn)),
        z3.Implies(z3.And(a > -pi / 2, a < pi / 2), pos(cs)),
        z3.Implies(z3.And(a > pi / 2, a < 3 * pi / 2), neg(cs)),
        z3.Implies(z3.And(a > -3 * pi / 2, a < -pi / 2), neg(cs)),
        z3.Implies(a == 0, z3.And((cs == 1).t, (sn == 0).t)),
        z3.Implies(z3.Or(a == pi, a == -pi), z3.And((cs == -1).t, (sn == 0).t)),
        z3.Implies(a == pi / 2, z3.And((cs == 0).t, (sn == 1).t)),
        z3.Implies(a == -pi / 2, z3.And((cs == 0).t, (sn == -1).t)),
    ]
    for f in fs:
        c.add_fact(f, "quad", "quadrant")


def mulang(cs, sn, n):
    if n < 0:
        cc, ss = mulang(cs, sn, -n)
        return cc, -ss
    if n > 8:
        raise Unsupported("angle multiple > 8")
    rc, rs = Sym(rv(1)), Sym(rv(0))
    for _ in range(n):
        rc, rs = rc * cs - rs * sn, rs * cs + rc * sn
    return rc, rs


def cs_of_atom(at, den):
    c = ctx()
    if den > 4:
        raise Unsupported("angle denominator > 4")
    key = (at.get_id(), den)
    if key in c.angles:
        return c.angles[key][1:]
    cv, sv = c.fresh("c"), c.fresh("s")
    import mpmath as _mp

    c.shadow_set(cv, lambda k: _mp.cos(c.num(at, k) / den))
    c.shadow_set(sv, lambda k: _mp.sin(c.num(at, k) / den))
    c.add_fact(cv * cv + sv * sv == 1, "rel", "pythagoras")
    c.add_fact(z3.And(cv >= -1, cv <= 1, sv >= -1, sv <= 1), "rng", "cs-bounds")
    term = at / den if den != 1 else at
    c.angles[key] = (term, Sym(cv), Sym(sv))
    c.keep.append(at)
    quadrant(term, cv, sv)
    for (aid, d2), (_, c2, s2) in list(c.angles.items()):
        if aid == at.get_id() and d2 != den:
            if d2 % den == 0:
                cc, ss = mulang(c2, s2, d2 // den)
                c.add_fact(z3.And((Sym(cv) == cc).t, (Sym(sv) == ss).t), "rel", "multiple-angle")
                c.angle_links.append((cv, sv, cc, ss))
            elif den % d2 == 0:
                cc, ss = mulang(Sym(cv), Sym(sv), den // d2)
                c.add_fact(z3.And((c2 == cc).t, (s2 == ss).t), "rel", "multiple-angle")
                c.angle_links.append((c2.n, s2.n, cc, ss))
    return Sym(cv), Sym(sv)


def cossin(a):
    """a: Sym angle -> (cos, sin) Syms, by angle addition over the atoms of the linear form"""
    c = ctx()
    a = use(S(a))
    t = z3.simplify(a.term(), som=False)
    c.keep.append(t)
    key = ("cs", t.get_id())
    if key in c.cache:
        return c.cache[key]
    if _find_ite(t) is not None and not c.no_solver_in_execution:
        res = lift_ite(t, lambda u: cossin(Sym(u)))
        c.cache[key] = res
        return res
    atoms, pc, kc = _lin(t)
    if kc != 0:
        raise Unsupported("numeric constant in angle")
    rc, rs = Sym(rv(1)), Sym(rv(0))
    for i, (at, coef) in atoms.items():
        cv, sv = cs_of_atom(at, coef.denominator)
        cc, ss = mulang(cv, sv, coef.numerator)
        rc, rs = rc * cc - rs * ss, rs * cc + rc * ss
    q = pc * 2
    if q.denominator != 1:
        raise Unsupported("pi coefficient not a multiple of 1/2")
    for _ in range(int(q) % 4):
        rc, rs = -rs, rc
    rc, rs = Sym(simp(rc.n), simp(rc.d)), Sym(simp(rs.n), simp(rs.d))
    c.cache[key] = (rc, rs)
    return rc, rs


def exp_of(a):
    """exp of a Sym whose term is a linear form over exponent atoms"""
    c = ctx()
    a = use(S(a))
    t = z3.simplify(a.term(), som=False)
    c.keep.append(t)
    if _find_ite(t) is not None and not c.no_solver_in_execution:
        return lift_ite(t, lambda u: exp_of(Sym(u)))
    atoms, pc, kc = _lin(t)
    if pc != 0 or kc != 0:
        raise Unsupported("constant inside exp argument")
    res = Sym(rv(1), None, True)
    for i, (at, coef) in atoms.items():
        den = coef.denominator
        if den > 2:
            raise Unsupported("exp denominator > 2")
        key = (at.get_id(), den)
        if key not in c.exps:
            E = c.fresh("E")
            term = at / den if den != 1 else at
            import mpmath as _mp

            c.shadow_set(E, lambda k, at=at, den=den: _mp.exp(c.num(at, k) / den))
            c.exps[key] = (term, E)
            c.keep.append(at)
            c.add_fact(E > 0, "rel", "exp-positive")
            c.add_fact(z3.And((E > 1) == (term > 0), (E == 1) == (term == 0)), "rng", "exp-sign")
            other = (at.get_id(), 3 - den)
            if other in c.exps:
                E2 = c.exps[other][1]
                c.add_fact((E * E == E2) if den == 2 else (E2 * E2 == E), "rel", "exp-half")
        E = Sym(c.exps[key][1], None, True)
        n = coef.numerator
        if abs(n) > 8:
            raise Unsupported("exp multiple > 8")
        p = E ** abs(n)
        res = res * p if n > 0 else res / p
    return res


def angle_window_lemma(a, b):
    """two angles with equal (cos, sin) inside one half-open 2*pi window are equal; equal cos in [0, pi]"""
    c = ctx()
    a, b = S(a), S(b)
    ca, sa = cossin(a)
    cb, sb = cossin(b)
    pi = c.pi
    at, bt = a.term(), b.term()
    same = z3.And((ca == cb).t, (sa == sb).t)
    c.add_fact(z3.Implies(z3.And(at > -pi, at <= pi, bt > -pi, bt <= pi, same), at == bt), "rng", "window")
    c.add_fact(z3.Implies(z3.And(at >= -pi, at < pi, bt >= -pi, bt < pi, same), at == bt), "rng", "window")
    c.add_fact(z3.Implies(z3.And(at >= 0, at <= pi, bt >= 0, bt <= pi, (ca == cb).t), at == bt), "rng", "window")
    c.add_fact(
        z3.Implies(z3.And(at >= -pi / 2, at <= pi / 2, bt >= -pi / 2, bt <= pi / 2, (sa == sb).t), at == bt),
        "rng",
        "window",
    )


# ------------------------------------------------------------------------------------------
# the lib adapter
# ------------------------------------------------------------------------------------------


class SymLib:
    inf = float("inf")
    nan = float("nan")

    def __repr__(self):
        return "SymLib"

    @property
    def pi(self):
        return Sym(ctx().pi)

    # -- roots ---------------------------------------------------------------------------
    def root(self, a, k):
        c = ctx()
        a = use(S(a))
        N, D = simp(a.n), simp(a.d)
        if z3.is_rational_value(N) and z3.is_rational_value(D):
            q = _q(N) / _q(D)
            if q >= 0:
                import math

                for cand_num in (round(q.numerator ** (1.0 / k)),):
                    for cand_den in (round(q.denominator ** (1.0 / k)),):
                        if cand_den and Fraction(cand_num, cand_den) ** k == q:
                            return S(Fraction(cand_num, cand_den))
        for (r, N2, D2, k2) in c.sqrts:
            if k2 != k:
                continue
            if z3.eq(N, N2) and z3.eq(D, D2):
                return Sym(r, None, k % 2 == 0)
        for (r, N2, D2, k2) in c.sqrts:
            if k2 != k:
                continue
            c.stats.merge_q += 1
            if c.entails(N * D2 == N2 * D, kind="merge"):
                return Sym(r, None, k % 2 == 0)
        if k == 2:
            e = self._perfect_square(a, N, D)
            if e is not None:
                return e
        r = c.fresh("r")

        def _rootval(kk, a=a, k=k):
            import mpmath as mp

            n_, d_ = c.num(a.n, kk), c.num(a.d, kk)
            q_ = n_ / d_
            if k % 2 == 0:
                return mp.root(q_, k) if q_ >= 0 else None
            return mp.root(q_, k) if q_ >= 0 else -mp.root(-q_, k)

        c.shadow_set(r, _rootval)
        c.sqrts.append((r, N, D, k))
        c.keep += [N, D]
        if k % 2 == 0 and not a.nn:
            c.add_fact((a >= 0).t, "defd", "root-arg")
        rk = r
        for _ in range(k - 1):
            rk = rk * r
        if k % 2 == 0:
            c.add_fact(z3.And(r >= 0, rk * D == N), "rel", f"root{k}")
        else:
            c.add_fact(rk * D == N, "rel", f"root{k}")
        return Sym(r, None, k % 2 == 0)

    def _perfect_square(self, a, N, D):
        """sqrt(N/D) = e for a product e of known non-negative quantities?  Candidates are found by
        comparing numeric values at the shadow points (a heuristic); a candidate is used only after the
        solver has shown e >= 0 and e*e == N/D."""
        import mpmath as mp

        c = ctx()
        try:
            target = []
            for k in range(len(c.shadows)):
                if not c.shadow_ok(k):
                    return None
                q = c.num(a.n, k) / c.num(a.d, k)
                if q is None or q < 0:
                    return None
                target.append(mp.sqrt(q))
        except Exception:
            return None
        atoms = []
        for nm, (v, kind) in c.inputs.items():
            if kind in ("pos", "nonneg"):
                atoms.append(Sym(v, None, True))
        for (r, N2, D2, k2) in c.sqrts:
            if k2 == 2:
                atoms.append(Sym(r, None, True))
        for (aid, den), (t, E) in list(c.exps.items()):
            Es = Sym(E, None, True)
            atoms += [Es, 1 / Es, (Es + 1 / Es) / 2]
        for (aid, den), (t, cs, sn) in list(c.angles.items()):
            atoms += [sn, cs, 1 / sn, 1 / cs, -sn, -cs]
        atoms = atoms[:40]
        vals = []
        for e in atoms:
            try:
                vv = [c.num(e.n, k) / c.num(e.d, k) for k in range(len(c.shadows))]
                vals.append(vv if all(x is not None and x > 0 for x in vv) else None)
            except Exception:
                vals.append(None)

        def match(vv):
            return all(abs(vv[k] - target[k]) <= mp.mpf("1e-25") * (1 + abs(target[k])) for k in range(len(target)))

        cands = []
        for i, e in enumerate(atoms):
            if vals[i] is None:
                continue
            if match(vals[i]):
                cands.append(e)
            for j in range(i, len(atoms)):
                if vals[j] is None:
                    continue
                if match([vals[i][k] * vals[j][k] for k in range(len(target))]):
                    cands.append(e * atoms[j])
        for e in cands[:3]:
            c.stats.merge_q += 1
            if c.entails(z3.And((e >= 0).t, (e * e == a).t), kind="merge"):
                return Sym(e.n, e.d, True)
        return None

    def sqrt(self, a):
        if isinstance(a, Singular):
            return a
        return self.root(a, 2)

    def cbrt(self, a):
        return self.root(a, 3)

    # -- trigonometry --------------------------------------------------------------------
    def cos(self, a):
        return cossin(S(a))[0]

    def sin(self, a):
        return cossin(S(a))[1]

    def tan(self, a):
        cs, sn = cossin(S(a))
        return sn / cs

    def _angle(self, name, valfn):
        c = ctx()
        A = c.fresh(name)
        c.shadow_set(A, valfn)
        cs, sn = cs_of_atom(A, 1)
        return A, cs, sn

    def _known_angles(self):
        """existing angle atoms with denominator 1: (term, cos, sin)"""
        return [(t, cs, sn) for (aid, den), (t, cs, sn) in ctx().angles.items() if den == 1]

    def arctan2(self, y, x):
        c = ctx()
        y, x = use(S(y)), use(S(x))
        ky, kx = simp(y.n * x.d), simp(x.n * y.d)
        key = ("atan2", ky.get_id(), kx.get_id())
        c.keep += [ky, kx]
        if key in c.cache:
            return c.cache[key]
        r = self.sqrt(x * x + y * y)
        pi = c.pi
        # congruence by solver: an existing angle in (-pi, pi] with r cos = x, r sin = y
        for (t, cs, sn) in self._known_angles():
            c.stats.merge_q += 1
            if c.entails(z3.And((r * cs == x).t, (r * sn == y).t, t > -pi, t <= pi), kind="merge"):
                c.cache[key] = Sym(t)
                return Sym(t)
        import mpmath as _mp

        A, cs, sn = self._angle("atan2", lambda k: _mp.atan2(c.num(y.term(), k), c.num(x.term(), k)))
        c.add_fact(z3.Or((x != 0).t, (y != 0).t), "defd", "atan2-arg")
        c.add_fact(z3.And(A > -pi, A <= pi), "rng", "atan2-range")
        c.add_fact(z3.And((r * cs == x).t, (r * sn == y).t), "rel", "atan2")
        c.cache[key] = Sym(A)
        return Sym(A)

    def arctan(self, u):
        c = ctx()
        u = use(S(u))
        _kn, _kd = simp(u.n), simp(u.d)
        c.keep += [_kn, _kd]  # keep alive: z3 reuses the ids of freed terms
        _key = ("arctan", _kn.get_id(), _kd.get_id())
        if _key in c.cache:
            return c.cache[_key]
        pi = c.pi
        for (t, cs, sn) in self._known_angles():
            c.stats.merge_q += 1
            if c.entails(z3.And((cs > 0).t, (sn == u * cs).t, t > -pi / 2, t < pi / 2), kind="merge"):
                return Sym(t)
        import mpmath as _mp

        A, cs, sn = self._angle("atan", lambda k: _mp.atan(c.num(u.term(), k)))
        c.add_fact(z3.And(A > -pi / 2, A < pi / 2, (A > 0) == (u > 0).t, (A == 0) == (u == 0).t), "rng", "atan-range")
        c.add_fact(z3.And((cs > 0).t, (sn == u * cs).t), "rel", "atan")
        c.cache[_key] = Sym(A)
        return c.cache[_key]

    def arccos(self, u):
        c = ctx()
        u = use(S(u))
        _kn, _kd = simp(u.n), simp(u.d)
        c.keep += [_kn, _kd]  # keep alive: z3 reuses the ids of freed terms
        _key = ("arccos", _kn.get_id(), _kd.get_id())
        if _key in c.cache:
            return c.cache[_key]
        pi = c.pi
        for (t, cs, sn) in self._known_angles():
            c.stats.merge_q += 1
            if c.entails(z3.And((cs == u).t, t >= 0, t <= pi), kind="merge"):
                return Sym(t)
        import mpmath as _mp

        A, cs, sn = self._angle("acos", lambda k: _mp.acos(c.num(u.term(), k)) if abs(c.num(u.term(), k)) <= 1 else None)
        c.add_fact(z3.And((u >= -1).t, (u <= 1).t), "defd", "acos-arg")
        c.add_fact(z3.And(A >= 0, A <= pi), "rng", "acos-range")
        c.add_fact(z3.And((sn >= 0).t, (cs == u).t), "rel", "acos")
        c.cache[_key] = Sym(A)
        return c.cache[_key]

    def arcsin(self, u):
        c = ctx()
        u = use(S(u))
        _kn, _kd = simp(u.n), simp(u.d)
        c.keep += [_kn, _kd]  # keep alive: z3 reuses the ids of freed terms
        _key = ("arcsin", _kn.get_id(), _kd.get_id())
        if _key in c.cache:
            return c.cache[_key]
        pi = c.pi
        import mpmath as _mp

        A, cs, sn = self._angle("asin", lambda k: _mp.asin(c.num(u.term(), k)) if abs(c.num(u.term(), k)) <= 1 else None)
        c.add_fact(z3.And((u >= -1).t, (u <= 1).t), "defd", "asin-arg")
        c.add_fact(z3.And(A >= -pi / 2, A <= pi / 2), "rng", "asin-range")
        c.add_fact(z3.And((cs >= 0).t, (sn == u).t), "rel", "asin")
        c.cache[_key] = Sym(A)
        return c.cache[_key]

    # -- exponentials --------------------------------------------------------------------
    def exp(self, a):
        return exp_of(a)

    def _known_exps(self):
        return [(t, Sym(E)) for (aid, den), (t, E) in ctx().exps.items() if den == 1]

    def log(self, u):
        c = ctx()
        u = use(S(u))
        _kn, _kd = simp(u.n), simp(u.d)
        c.keep += [_kn, _kd]  # keep alive: z3 reuses the ids of freed terms
        _key = ("log", _kn.get_id(), _kd.get_id())
        if _key in c.cache:
            return c.cache[_key]
        for (t, E) in self._known_exps():
            c.stats.merge_q += 1
            if c.entails((E == u).t, kind="merge"):
                return Sym(t)
            if c.entails((E * u == 1).t, kind="merge"):
                return -Sym(t)
        L = c.fresh("L")
        import mpmath as _mp

        c.shadow_set(L, lambda k: _mp.log(c.num(u.term(), k)) if c.num(u.term(), k) > 0 else None)
        c.add_fact((u > 0).t, "defd", "log-arg")
        E = exp_of(Sym(L))
        c.add_fact((E == u).t, "rel", "log")
        c.cache[_key] = Sym(L)
        return c.cache[_key]

    def sinh(self, a):
        E = exp_of(a)
        return (E - 1 / E) / 2

    def cosh(self, a):
        E = exp_of(a)
        return (E + 1 / E) / 2

    def tanh(self, a):
        E = exp_of(a)
        return (E - 1 / E) / (E + 1 / E)

    def arcsinh(self, w):
        c = ctx()
        w = use(S(w))
        _kn, _kd = simp(w.n), simp(w.d)
        c.keep += [_kn, _kd]  # keep alive: z3 reuses the ids of freed terms
        _key = ("arcsinh", _kn.get_id(), _kd.get_id())
        if _key in c.cache:
            return c.cache[_key]
        for (t, E) in self._known_exps():
            c.stats.merge_q += 1
            if c.entails(((E - 1 / E) / 2 == w).t, kind="merge"):
                return Sym(t)
            if c.entails(((1 / E - E) / 2 == w).t, kind="merge"):
                return -Sym(t)
        A = c.fresh("asinh")
        import mpmath as _mp

        c.shadow_set(A, lambda k: _mp.asinh(c.num(w.term(), k)))
        c.add_fact((self.sinh(Sym(A)) == w).t, "rel", "asinh")
        c.cache[_key] = Sym(A)
        return c.cache[_key]

    # -- modulo --------------------------------------------------------------------------
    def mod(self, a, m):
        c = ctx()
        a, m = use(S(a)), use(S(m))
        at, mt = a.term(), m.term()
        ka, km = z3.simplify(at), z3.simplify(mt)
        c.keep += [ka, km]
        key = ("mod", ka.get_id(), km.get_id())
        if key in c.cache:
            return c.cache[key]
        r = c.fresh("mod")
        c.cache[key] = Sym(r)
        c.shadow_set(r, lambda k: c.num(at, k) % c.num(mt, k) if c.num(mt, k) > 0 else None)
        c.add_fact(
            z3.And(
                z3.Implies(mt > 0, z3.And(r >= 0, r < mt)),
                z3.Implies(z3.And(mt > 0, at >= 0, at < mt), r == at),
                z3.Implies(z3.And(mt > 0, at >= mt, at < 2 * mt), r == at - mt),
                z3.Implies(z3.And(mt > 0, at >= -mt, at < 0), r == at + mt),
                z3.Implies(z3.And(mt > 0, at >= 2 * mt, at < 3 * mt), r == at - 2 * mt),
                z3.Implies(z3.And(mt > 0, at >= -2 * mt, at < -mt), r == at + 2 * mt),
            ),
            "rng",
            "mod-windows",
        )
        if z3.eq(z3.simplify(mt), z3.simplify(2 * c.pi)):
            ca, sa = cossin(a)
            c.angles[(r.get_id(), 1)] = (r, ca, sa)
            c.keep.append(r)
        return Sym(r)

    # -- piecewise -----------------------------------------------------------------------
    def absolute(self, a):
        if isinstance(a, Singular):
            return a
        a = S(a)
        if a.nn:
            return a
        r = ite((a >= 0).t, a, -a)
        if isinstance(r, Sym):
            r = Sym(r.n, r.d, True)
        return r

    def sign(self, a):
        a = S(a)
        return ite((a > 0).t, Sym(rv(1)), ite((a < 0).t, Sym(rv(-1)), Sym(rv(0))))

    def copysign(self, a, b):
        aa = self.absolute(a)
        return ite((S(b) >= 0).t, aa, -aa)

    def maximum(self, a, b):
        a, b = S(a), S(b)
        return ite((a >= b).t, a, b)

    def minimum(self, a, b):
        a, b = S(a), S(b)
        return ite((a <= b).t, a, b)

    def nan_to_num(self, a, nan=0.0, posinf=None, neginf=None):
        return a if isinstance(a, Singular) else S(a)

    def isclose(self, a, b, rtol=1e-5, atol=1e-8, equal_nan=False):
        return self.absolute(S(a) - b) <= atol + rtol * self.absolute(b)

    def where(self, cond, a, b):
        return ite(lb(cond), a, b)

    def logical_and(self, a, b):
        return SymBool(z3.And(lb(a), lb(b)))

    def logical_or(self, a, b):
        return SymBool(z3.Or(lb(a), lb(b)))

    def logical_not(self, a):
        return SymBool(z3.Not(lb(a)))


LIB = SymLib()
