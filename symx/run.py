"""Runs: the same obligation function is executed symbolically (z3 terms; the solver decides)
and concretely (50-digit mpmath or float64 on the real classes; used only to replay solver
counterexamples and to validate the encoding)."""
from __future__ import annotations

import fractions
import math
import random

import mpmath as mp
import z3

from . import core, lanes
from .core import S, Sym, SymBool, Unsupported

Fraction = fractions.Fraction


class OutOfDomain(Exception):
    pass


KINDS = ("real", "pos", "nonneg", "phi", "theta", "angle", "beta", "gamma", "tol", "nonzero", "small")

_SYM_CLASSES = None


def sym_classes():
    global _SYM_CLASSES
    if _SYM_CLASSES is None:
        _SYM_CLASSES = lanes.make_object_classes(core.LIB, "Sym")
    return _SYM_CLASSES


class BaseRun:
    mode = "?"

    def vec(self, system, tag, momentum=False, offaxis=None, tau_nonneg=True, name=None):
        """fresh stored coordinates in `system` with the representable ('regular') domain:
        rho > 0, -pi < phi <= pi, 0 < theta < pi, tau >= 0; (x, y) != 0 when the longitudinal
        coordinate is theta/eta (or when offaxis=True)."""
        az = system[0]
        if az == "xy":
            c0, c1 = self.real(f"x{tag}"), self.real(f"y{tag}")
        else:
            c0, c1 = self.real(f"rho{tag}", "pos"), self.real(f"phi{tag}", "phi")
        coords = [c0, c1]
        need_off = offaxis if offaxis is not None else (len(system) > 1 and system[1] != "z")
        if need_off and az == "xy":
            self.assume((c0 != 0) | (c1 != 0))
        if len(system) > 1:
            lo = system[1]
            if lo == "z":
                coords.append(self.real(f"z{tag}"))
            elif lo == "theta":
                coords.append(self.real(f"theta{tag}", "theta"))
            else:
                coords.append(self.real(f"eta{tag}"))
        if len(system) > 2:
            te = system[2]
            if te == "t":
                coords.append(self.real(f"t{tag}"))
            else:
                tau = self.real(f"tau{tag}", "nonneg" if tau_nonneg else "real")
                coords.append(tau)
                if not tau_nonneg:
                    # representable: t^2 = mag^2 + sign(tau) tau^2 >= 0 (checked by the caller through decode)
                    self._signed_tau = getattr(self, "_signed_tau", []) + [tau]
        return self._track(lanes.build(self.classes, system, coords, momentum))

    def build(self, system, coords, momentum=False):
        return self._track(lanes.build(self.classes, system, coords, momentum))

    # ---- frame condition (C16): every operand handed out is snapshotted ----------------------
    def _track(self, v):
        if not hasattr(self, "operands"):
            self.operands = []
        self.operands.append((v, snapshot(v)))
        # keep the stored coordinate objects alive so that their ids cannot be reused
        if not hasattr(self, "_alive"):
            self._alive = []
        self._alive.append([getattr(v, g) for g in ("azimuthal", "longitudinal", "temporal") if hasattr(v, g)])
        return v

    def untrack(self, v):
        """the vector is about to be modified on purpose (assignment / in-place operator)"""
        self.operands = [(w, s) for (w, s) in getattr(self, "operands", []) if w is not v]

    def frame_violations(self):
        out = []
        for v, snap in getattr(self, "operands", []):
            now = snapshot(v)
            if now != snap:
                out.append(f"{snap[0]} operand changed: {snap} -> {now}")
        return out


def snapshot(v):
    """class, coordinate classes and the identities of every stored coordinate object"""
    parts = [type(v).__name__]
    for grp in ("azimuthal", "longitudinal", "temporal"):
        if hasattr(v, grp):
            g = getattr(v, grp)
            parts.append((grp, type(g).__name__, id(g), tuple(id(e) for e in g.elements)))
    return tuple(parts)


class _Unused:
    pass


class SymRun(BaseRun):
    mode = "sym"

    def __init__(self, ctx):
        self.ctx = ctx
        self.lib = core.LIB
        self.classes = sym_classes()

    def real(self, name, kind="real"):
        fresh = name not in self.ctx.inputs
        v = self.ctx.input(name, kind)
        if fresh:
            pi = self.ctx.pi
            t = v.n
            dom = {
                "real": None,
                "angle": None,
                "pos": t > 0,
                "nonneg": t >= 0,
                "tol": t >= 0,
                "phi": z3.And(t > -pi, t <= pi),
                "theta": z3.And(t > 0, t < pi),
                "beta": z3.And(t > -1, t < 1),
                "gamma": z3.Or(t >= 1, t <= -1),
                "nonzero": t != 0,
                "small": z3.And(t > -1, t < 1),
            }[kind]
            if dom is not None:
                self.ctx.add_dom(dom, simple=True)
        return v

    def assume(self, cond):
        if isinstance(cond, SymBool):
            cond = cond.t
        elif isinstance(cond, bool):
            cond = z3.BoolVal(cond)
        self.ctx.add_dom(cond)

    def const(self, v):
        return S(v)

    def abstract(self, name, expr, nonneg_root=False):
        """a fresh symbol standing for `expr` (definitional link, used lazily by the prover): goals about
        code that merely receives the value do not have to carry the expression around.
        nonneg_root: the symbol is the non-negative square root of expr."""
        v = self.ctx.input(name, "real")
        e = S(expr)
        core.use(e)
        if nonneg_root:
            self.ctx.add_dom(v.n >= 0, simple=True)
            self.ctx.add_dom((v * v == e).t)
            self.ctx.links.append((v.n, 2, e))
        else:
            self.ctx.add_dom((v == e).t)
            self.ctx.links.append((v.n, 1, e))
        # numeric shadow of the abstraction symbol
        import mpmath as mp

        for k, sh in enumerate(self.ctx.shadows):
            try:
                val = self.ctx.num(e.n, k) / self.ctx.num(e.d, k)
                sh[name] = mp.sqrt(val) if nonneg_root else val
            except Exception:
                sh[name] = None
        return v


class ConcRun(BaseRun):
    """concrete evaluation on the real classes with 50-digit mpmath scalars"""

    mode = "mp"

    def __init__(self, assignment):
        self.assignment = assignment
        self.lib = lanes.MPLIB
        self.classes = lanes.mp_classes()
        self.used = {}

    def conv(self, q):
        if isinstance(q, Fraction):
            return mp.mpf(q.numerator) / mp.mpf(q.denominator)
        return mp.mpf(q)

    def pi(self):
        return mp.pi

    def real(self, name, kind="real"):
        if name in self.used:
            return self.used[name][0]
        if name in self.assignment:
            q = self.assignment[name]
        else:
            q = default_value(name, kind)
        v = self.conv(q)
        pi = self.pi()
        ok = {
            "real": True,
            "angle": True,
            "pos": v > 0,
            "nonneg": v >= 0,
            "tol": v >= 0,
            "phi": -pi < v <= pi,
            "theta": 0 < v < pi,
            "beta": -1 < v < 1,
            "gamma": v >= 1 or v <= -1,
            "nonzero": v != 0,
            "small": -1 < v < 1,
        }[kind]
        if not ok:
            raise OutOfDomain(f"{name}={q} not of kind {kind}")
        self.used[name] = (v, q, kind)
        return v

    def assume(self, cond):
        if isinstance(cond, CGoal):
            cond = cond.ok
        if not bool(cond):
            raise OutOfDomain("assumption false")

    def const(self, v):
        return self.conv(v) if not isinstance(v, (int,)) else v

    def abstract(self, name, expr, nonneg_root=False):
        if nonneg_root:
            return self.lib.sqrt(expr)
        return expr


class F64Run(ConcRun):
    """concrete evaluation on the unmodified float64 object backend"""

    mode = "f64"

    def __init__(self, assignment):
        super().__init__(assignment)
        import numpy
        from vector.backends import object as vo

        self.lib = numpy
        self.classes = {
            (2, False): vo.VectorObject2D,
            (2, True): vo.MomentumObject2D,
            (3, False): vo.VectorObject3D,
            (3, True): vo.MomentumObject3D,
            (4, False): vo.VectorObject4D,
            (4, True): vo.MomentumObject4D,
        }

    def conv(self, q):
        return float(q)

    def pi(self):
        return math.pi


def default_value(name, kind):
    return {
        "real": Fraction(7, 10),
        "angle": Fraction(9, 10),
        "pos": Fraction(13, 10),
        "nonneg": Fraction(6, 10),
        "tol": Fraction(1, 1000),
        "phi": Fraction(-11, 10),
        "theta": Fraction(8, 10),
        "beta": Fraction(3, 10),
        "gamma": Fraction(3, 2),
        "nonzero": Fraction(-6, 5),
        "small": Fraction(1, 5),
    }[kind]


_STRATA = {
    "real": [Fraction(7, 10), Fraction(-13, 10), Fraction(21, 10), Fraction(-3, 10), Fraction(0), Fraction(16, 5), Fraction(-27, 10), Fraction(1, 100)],
    "angle": [Fraction(9, 10), Fraction(-21, 10), Fraction(4), Fraction(-5), Fraction(0), Fraction(29, 10), Fraction(-1, 3), Fraction(17, 10)],
    "pos": [Fraction(13, 10), Fraction(1, 4), Fraction(3), Fraction(1, 50), Fraction(9, 5), Fraction(7, 2)],
    "nonneg": [Fraction(6, 10), Fraction(0), Fraction(5, 2), Fraction(1, 20), Fraction(3, 2)],
    "tol": [Fraction(1, 1000), Fraction(0), Fraction(1, 10), Fraction(1, 2), Fraction(1, 100000), Fraction(3, 2), Fraction(5, 2)],
    "phi": [Fraction(-11, 10), Fraction(2), Fraction(3), Fraction(-29, 10), Fraction(1, 3), Fraction(-2), Fraction(0), Fraction(31, 10)],
    "theta": [Fraction(8, 10), Fraction(2), Fraction(1, 10), Fraction(3), Fraction(3, 2), Fraction(27, 10)],
    "beta": [Fraction(3, 10), Fraction(-7, 10), Fraction(99, 100), Fraction(0), Fraction(-1, 5), Fraction(1, 2)],
    "gamma": [Fraction(3, 2), Fraction(-2), Fraction(1), Fraction(5), Fraction(-11, 10)],
    "nonzero": [Fraction(-6, 5), Fraction(2), Fraction(1, 3), Fraction(-1, 4)],
    "small": [Fraction(1, 5), Fraction(-1, 2), Fraction(0), Fraction(9, 10)],
}


def stratified_assignments(inputs, n, seed=0):
    """deterministic replay candidates over per-kind strata (replay candidates only)"""
    rnd = random.Random(seed)
    out = []
    names = sorted(inputs)
    for k in range(n):
        a = {}
        for nm in names:
            vals = _STRATA[inputs[nm]]
            a[nm] = vals[(k + rnd.randrange(len(vals))) % len(vals)] if k else vals[0]
        out.append(a)
    return out + zero_operand_assignments(inputs)


_COORD_PREFIXES = ("theta", "tau", "rho", "phi", "eta", "x", "y", "z", "t")


def zero_operand_assignments(inputs):
    """one candidate per operand (inputs sharing a tag) in which that operand is the zero vector and every
    other input has its default value: the zero boost, the zero addend, the vector at rest"""
    groups = {}
    for nm, kind in inputs.items():
        for pre in _COORD_PREFIXES:
            if nm.startswith(pre) and len(nm) > len(pre):
                groups.setdefault(nm[len(pre):], []).append(nm)
                break
    out = []
    for tag in sorted(groups):
        members = [nm for nm in groups[tag] if inputs[nm] in ("real", "nonneg", "small", "beta")]
        if len(members) < 2:
            continue
        a = {nm: default_value(nm, kind) for nm, kind in inputs.items()}
        for nm in members:
            a[nm] = Fraction(0)
        out.append(a)
    return out


def random_assignments(inputs, n, seed=0):
    """deterministic pseudo-random replay candidates (replay candidates only): most stratified points
    fall outside composite domain conditions such as 'booster timelike with E > 0'"""
    rnd = random.Random(1000 + seed)
    names = sorted(inputs)

    def draw(kind):
        u = rnd.random()
        if kind in ("real", "angle"):
            return Fraction(round((u - 0.5) * (8 if kind == "real" else 14) * 1000), 1000)
        if kind == "pos":
            return Fraction(round((0.05 + 4 * u * u) * 1000), 1000)
        if kind == "nonneg":
            return Fraction(0) if u < 0.1 else Fraction(round(3.5 * u * 1000), 1000)
        if kind == "tol":
            return Fraction(round(u * u * 600), 1000)
        if kind == "phi":
            return Fraction(round((u - 0.5) * 6.2 * 1000), 1000)
        if kind == "theta":
            return Fraction(round((0.02 + 3.1 * u) * 1000), 1000)
        if kind in ("beta", "small"):
            return Fraction(round((u - 0.5) * 1.96 * 1000), 1000)
        if kind == "gamma":
            return Fraction(round((1 + 3 * u) * 1000), 1000) * (1 if rnd.random() < 0.5 else -1)
        if kind == "nonzero":
            return Fraction(round((0.1 + 3 * u) * 1000), 1000) * (1 if rnd.random() < 0.5 else -1)
        return Fraction(1, 2)

    for k in range(n):
        a = {nm: draw(inputs[nm]) for nm in names}
        # bias: make time-like configurations likely (t, E large compared with the spatial part)
        if k % 2 == 0:
            for nm in names:
                if nm.startswith("t") and not nm.startswith(("tau", "theta", "tol")) and inputs[nm] == "real":
                    a[nm] = Fraction(round((3 + 6 * rnd.random()) * 1000), 1000)
        yield a


def model_assignment(ctx, model):
    """input values of a z3 model as Fractions (algebraic numbers rounded to 30 digits)"""
    a = {}
    for nm, (v, kind) in ctx.inputs.items():
        if nm in ctx.fp_inputs:
            fv = model.eval(ctx.fp_inputs[nm], model_completion=True)
            try:
                a[nm] = Fraction(float(fv.as_string()) if not fv.isInf() else 0.0) if not fv.isNaN() else Fraction(0)
            except Exception:
                a[nm] = Fraction(0)
            continue
        val = model.eval(v, model_completion=True)
        a[nm] = _to_fraction(val)
    return a


def _to_fraction(val):
    if z3.is_rational_value(val):
        return Fraction(val.numerator_as_long(), val.denominator_as_long())
    if z3.is_algebraic_value(val):
        ap = val.approx(40)
        return Fraction(ap.numerator_as_long(), ap.denominator_as_long())
    s = z3.simplify(val)
    if z3.is_rational_value(s):
        return Fraction(s.numerator_as_long(), s.denominator_as_long())
    return Fraction(0)


# ------------------------------------------------------------------------------------------
# goals
# ------------------------------------------------------------------------------------------


class Goal:
    """symbolic goal: a z3 formula, optionally a conjunction of parts proved one by one"""

    def __init__(self, form, parts=None, kind="formula", sides=None):
        self.form = form
        self.parts = parts
        self.kind = kind
        self.sides = sides


class CGoal:
    """concrete goal"""

    def __init__(self, ok, detail=""):
        self.ok = bool(ok)
        self.detail = detail

    def __bool__(self):
        return self.ok


def _is_sym(*xs):
    return any(isinstance(x, (Sym, SymBool, Goal)) for x in xs)


MP_TOL = mp.mpf("1e-22")
F64_TOL = 2e-6


def _tol(x):
    return F64_TOL if isinstance(x, float) and not isinstance(x, mp.mpf) else MP_TOL


def _num(x):
    if isinstance(x, CGoal):
        return x.ok
    if hasattr(x, "item") and getattr(x, "shape", None) == ():
        return x.item()
    return x


def _close(a, b, scale=None):
    a, b = _num(a), _num(b)
    fa = isinstance(a, mp.mpf) or isinstance(b, mp.mpf)
    if fa:
        a, b = mp.mpf(a), mp.mpf(b)
        if mp.isnan(a) and mp.isnan(b):
            return True
        if mp.isnan(a) or mp.isnan(b):
            return False
        if mp.isinf(a) or mp.isinf(b):
            return a == b
        tol = MP_TOL
    else:
        a, b = float(a), float(b)
        if a != a and b != b:
            return True
        if a != a or b != b:
            return False
        if math.isinf(a) or math.isinf(b):
            return a == b
        tol = F64_TOL
    sc = 1 + abs(a) + abs(b) + (abs(scale) if scale is not None else 0)
    return abs(a - b) <= tol * sc


def eq(a, b, scale=None):
    """a == b as real numbers"""
    if _is_sym(a, b):
        a, b = core.use(S(a)), core.use(S(b))
        return Goal((a == b).t, kind="eq", sides=(a, b))
    return CGoal(_close(a, b, scale), f"{a} vs {b}")


def eq_angle(a, b):
    """equality of two angle values (window lemma supplied to the solver)"""
    if _is_sym(a, b):
        a, b = core.use(S(a)), core.use(S(b))
        core.angle_window_lemma(a, b)
        return Goal(a.term() == b.term(), kind="eq_angle", sides=(a, b))
    return CGoal(_close(a, b), f"{a} vs {b}")


def eq_log(a, b):
    """equality of two log-valued quantities, through injectivity of exp"""
    if _is_sym(a, b):
        a, b = S(a), S(b)
        ea, eb = core.exp_of(a), core.exp_of(b)
        return Goal((ea == eb).t, kind="eq_log", sides=(ea, eb))
    return CGoal(_close(a, b), f"{a} vs {b}")


def _b(p):
    if isinstance(p, Goal):
        return p.form
    return core.lb(p)


def _cb(p):
    if isinstance(p, CGoal):
        return p.ok
    p = _num(p)
    return bool(p)


def holds(p):
    if _is_sym(p):
        return Goal(_b(p), kind="holds")
    return CGoal(_cb(p), "holds")


def iff(p, q):
    if _is_sym(p, q):
        return Goal(_b(p) == _b(q), kind="iff")
    return CGoal(_cb(p) == _cb(q), f"{_cb(p)} vs {_cb(q)}")


def implies(p, q):
    if _is_sym(p, q):
        return Goal(z3.Implies(_b(p), _b(q)), kind="implies")
    return CGoal((not _cb(p)) or _cb(q), f"{_cb(p)} => {_cb(q)}")


def _flatten_and(t):
    if z3.is_and(t):
        out = []
        for c in t.children():
            out += _flatten_and(c)
        return out
    return [t]


def implies_componentwise(p, q):
    """p => q for two conjunctions built the same way: proved conjunct by conjunct (stronger)"""
    if _is_sym(p, q):
        a, b = _flatten_and(_b(p)), _flatten_and(_b(q))
        if len(a) == len(b) and len(a) > 1:
            parts = [Goal(z3.Implies(x, y), kind="implies") for x, y in zip(a, b)]
            return Goal(z3.And(*[g.form for g in parts]), parts=parts, kind="and")
        return Goal(z3.Implies(_b(p), _b(q)), kind="implies")
    return CGoal((not _cb(p)) or _cb(q), f"{_cb(p)} => {_cb(q)}")


def conj(*gs):
    gs = [g for g in gs if g is not None]
    if any(isinstance(g, Goal) for g in gs):
        gs = [g if isinstance(g, Goal) else Goal(z3.BoolVal(bool(g))) for g in gs]
        return Goal(z3.And(*[g.form for g in gs]), parts=list(gs), kind="and")
    return CGoal(all(_cb(g) for g in gs), "; ".join(getattr(g, "detail", "") for g in gs if not _cb(g)))


def neg(p):
    if _is_sym(p):
        return Goal(z3.Not(_b(p)), kind="not")
    return CGoal(not _cb(p), "not")


def _slack(a, b):
    a, b = _num(a), _num(b)
    if isinstance(a, mp.mpf) or isinstance(b, mp.mpf):
        return MP_TOL * (1 + abs(mp.mpf(a)) + abs(mp.mpf(b)))
    return F64_TOL * (1 + abs(float(a)) + abs(float(b)))


def le(a, b):
    if _is_sym(a, b):
        return Goal((S(a) <= S(b)).t, kind="le")
    a, b = _num(a), _num(b)
    if a != a or b != b:
        return CGoal(False, "nan")
    return CGoal(a <= b + _slack(a, b), f"{a} <= {b}")


def lt(a, b):
    if _is_sym(a, b):
        return Goal((S(a) < S(b)).t, kind="lt")
    a, b = _num(a), _num(b)
    if a != a or b != b:
        return CGoal(False, "nan")
    return CGoal(a < b + _slack(a, b), f"{a} < {b}")


def ge(a, b):
    return le(b, a)


def gt(a, b):
    return lt(b, a)


def same(a, b, what=""):
    """object identity (meaningful in every mode)"""
    return CGoal(a is b, f"identity {what}")


def true(ok, detail=""):
    return CGoal(bool(ok), detail)


def sign_eq(a, b):
    """a and b have the same sign (-, 0, +)"""
    if _is_sym(a, b):
        a, b = S(a), S(b)
        return Goal(z3.And((a > 0).t == (b > 0).t, (a < 0).t == (b < 0).t), kind="sign")
    a, b = _num(a), _num(b)
    return CGoal((a > 0) == (b > 0) and (a < 0) == (b < 0), f"sign {a} vs {b}")
