"""Polynomial normal forms modulo the defining equalities of generators.

An equality goal P == 0 over the generators is rewritten with oriented, *valid* equalities
(s^2 -> 1 - c^2 for every (cos, sin) pair, r^2 -> N for every square-root generator with a
polynomial radicand, E_half^2 -> E) before it is handed to z3.  Rewriting with valid equalities
preserves the value of P on every model of the facts, so `residual == 0` is equivalent to `P == 0`
there; a zero residual is a proof of the identity (ideal membership by reduction), a non-zero one
is a smaller query for the solver.
"""
from __future__ import annotations

import fractions

import z3

Fraction = fractions.Fraction
MAX_TERMS = 60000


class TooBig(Exception):
    pass


def p_const(c):
    c = Fraction(c)
    return {(): c} if c != 0 else {}


def p_var(name):
    return {((name, 1),): Fraction(1)}


def p_add(a, b, sign=1):
    if len(a) < len(b) and sign == 1:
        a, b = b, a
    r = dict(a)
    for m, c in b.items():
        v = r.get(m, 0) + sign * c
        if v == 0:
            r.pop(m, None)
        else:
            r[m] = v
    return r


def m_mul(m1, m2):
    if not m1:
        return m2
    if not m2:
        return m1
    d = dict(m1)
    for v, e in m2:
        d[v] = d.get(v, 0) + e
    return tuple(sorted(d.items()))


def p_mul(a, b):
    if not a or not b:
        return {}
    if len(a) * len(b) > 4 * MAX_TERMS * 50:
        raise TooBig()
    r = {}
    for m1, c1 in a.items():
        for m2, c2 in b.items():
            m = m_mul(m1, m2)
            v = r.get(m, 0) + c1 * c2
            if v == 0:
                r.pop(m, None)
            else:
                r[m] = v
        if len(r) > MAX_TERMS:
            raise TooBig()
    return r


def p_pow(a, n):
    r = p_const(1)
    for _ in range(n):
        r = p_mul(r, a)
    return r


def from_z3(t, opaque, cache=None):
    """z3 real term -> polynomial dict; non-polynomial subterms become opaque variables"""
    if cache is None:
        cache = {}
    i = t.get_id()
    if i in cache:
        return cache[i]
    r = _from_z3(t, opaque, cache)
    cache[i] = r
    return r


def _from_z3(t, opaque, cache):
    if z3.is_rational_value(t):
        return p_const(Fraction(t.numerator_as_long(), t.denominator_as_long()))
    k = t.decl().kind() if z3.is_app(t) else None
    ch = t.children() if z3.is_app(t) else []
    if k == z3.Z3_OP_UNINTERPRETED and not ch:
        return p_var(t.decl().name())
    if k == z3.Z3_OP_ADD:
        r = {}
        for c in ch:
            r = p_add(r, from_z3(c, opaque, cache))
        return r
    if k == z3.Z3_OP_SUB:
        r = from_z3(ch[0], opaque, cache)
        for c in ch[1:]:
            r = p_add(r, from_z3(c, opaque, cache), -1)
        return r
    if k == z3.Z3_OP_UMINUS:
        return p_add({}, from_z3(ch[0], opaque, cache), -1)
    if k == z3.Z3_OP_MUL:
        r = p_const(1)
        for c in ch:
            r = p_mul(r, from_z3(c, opaque, cache))
        return r
    if k == z3.Z3_OP_POWER and z3.is_rational_value(ch[1]) and ch[1].denominator_as_long() == 1 and 0 <= ch[1].numerator_as_long() <= 12:
        return p_pow(from_z3(ch[0], opaque, cache), ch[1].numerator_as_long())
    if k == z3.Z3_OP_DIV and z3.is_rational_value(ch[1]) and ch[1].numerator_as_long() != 0:
        q = Fraction(ch[1].denominator_as_long(), ch[1].numerator_as_long())
        return p_mul(from_z3(ch[0], opaque, cache), p_const(q))
    name = f"@{t.get_id()}"
    opaque[name] = t
    return p_var(name)


def to_z3(p, opaque, varmap):
    terms = []
    for m, c in p.items():
        fs = [z3.RealVal(str(c))] if c != 1 or not m else []
        for v, e in m:
            base = opaque[v] if v in opaque else varmap.setdefault(v, z3.Real(v))
            for _ in range(e):
                fs.append(base)
        t = fs[0]
        for f in fs[1:]:
            t = t * f
        terms.append(t)
    if not terms:
        return z3.RealVal(0)
    r = terms[0]
    for t in terms[1:]:
        r = r + t
    return r


def rules_of(ctx):
    """oriented valid equalities: var name -> (power, replacement polynomial)"""
    rules = {}
    frac_rules = []
    opaque = {}
    seen = set()
    for (aid, den), (term, cs, sn) in ctx.angles.items():
        if not (cs.isint and sn.isint):
            continue
        c, s = cs.n, sn.n
        if z3.is_const(c) and z3.is_const(s) and c.decl().kind() == z3.Z3_OP_UNINTERPRETED and s.decl().kind() == z3.Z3_OP_UNINTERPRETED:
            cn, sname = c.decl().name(), s.decl().name()
            if sname in seen or sname not in ctx.gen_names:
                continue
            seen.add(sname)
            rules[sname] = (2, p_add(p_const(1), p_pow(p_var(cn), 2), -1))
    for (r, N, D, k) in ctx.sqrts:
        if k != 2:
            continue
        if z3.is_rational_value(D) and D.numerator_as_long() != 0:
            try:
                pn = from_z3(N, opaque)
            except TooBig:
                continue
            if any(v.startswith("@") for m in pn for v, _ in m):
                continue
            q = Fraction(D.denominator_as_long(), D.numerator_as_long())
            rules[r.decl().name()] = (2, p_mul(pn, p_const(q)))
        else:
            # r^2 * D == N with a polynomial D != 0 (a definedness condition): handled by clearing D
            try:
                pn, pd = from_z3(N, opaque), from_z3(D, opaque)
            except TooBig:
                continue
            if any(v.startswith("@") for pp in (pn, pd) for m in pp for v, _ in m):
                continue
            frac_rules.append((r.decl().name(), pn, pd))
    for (cv, sv, cc, ss) in ctx.angle_links:
        try:
            if cc.isint and ss.isint and z3.is_const(cv) and z3.is_const(sv):
                rules[cv.decl().name()] = (1, from_z3(cc.n, opaque))
                rules[sv.decl().name()] = (1, from_z3(ss.n, opaque))
        except TooBig:
            pass
    # polynomial equalities assumed in the domain (e.g. a unit axis: x^2 + y^2 + z^2 == 1): orient on a
    # variable that occurs in exactly one monomial, as a pure power
    for d in ctx.dom:
        if not (z3.is_app(d) and d.decl().kind() == z3.Z3_OP_EQ):
            continue
        lhs, rhs = d.children()
        if not z3.is_arith(lhs):
            continue
        try:
            pe = p_add(from_z3(lhs, opaque), from_z3(rhs, opaque), -1)
        except TooBig:
            continue
        if any(v.startswith("@") for m in pe for v, _ in m):
            continue
        occ = {}
        for m in pe:
            for v, e in m:
                occ.setdefault(v, []).append(m)
        for v in sorted(occ, reverse=True):
            ms = occ[v]
            if len(ms) == 1 and len(ms[0]) == 1 and v not in rules:
                m = ms[0]
                c0 = pe[m]
                rest = {mm: -cc / c0 for mm, cc in pe.items() if mm != m}
                rules[v] = (m[0][1], rest)
                break
    by_atom = {}
    for (aid, den), (term, E) in ctx.exps.items():
        by_atom.setdefault(aid, {})[den] = E
    for aid, d in by_atom.items():
        if 1 in d and 2 in d:
            rules[d[2].decl().name()] = (2, p_var(d[1].decl().name()))
    return rules, frac_rules


def clear_fraction_rule(p, name, pn, pd):
    """p == 0  <=>  p * D^k == 0 (D != 0); then (r^2 D) -> N"""
    deg = 0
    for m in p:
        for v, e in m:
            if v == name:
                deg = max(deg, e)
    k = deg // 2
    if k == 0:
        return p
    dpow = [p_const(1)]
    npow = [p_const(1)]
    for _ in range(k):
        dpow.append(p_mul(dpow[-1], pd))
        npow.append(p_mul(npow[-1], pn))
    out = {}
    for m, c in p.items():
        e = 0
        for v, ee in m:
            if v == name:
                e = ee
        q, rem = divmod(e, 2)
        rest = tuple((a, b) for a, b in m if a != name)
        if rem:
            rest = m_mul(rest, ((name, 1),))
        term = p_mul({rest: c}, p_mul(npow[q], dpow[k - q]))
        out = p_add(out, term)
        if len(out) > MAX_TERMS:
            raise TooBig()
    return out


def reduce(p, rules, max_rounds=60):
    """rewrite until no monomial contains var^power for a rule"""
    for _ in range(max_rounds):
        changed = False
        out = {}
        for m, c in p.items():
            hit = None
            for v, e in m:
                if v in rules and e >= rules[v][0]:
                    hit = (v, e)
                    break
            if hit is None:
                v0 = out.get(m, 0) + c
                if v0 == 0:
                    out.pop(m, None)
                else:
                    out[m] = v0
                continue
            changed = True
            v, e = hit
            pw, rep = rules[v]
            rest = tuple((a, b) for a, b in m if a != v)
            if e - pw > 0:
                rest = m_mul(rest, ((v, e - pw),))
            for m2, c2 in rep.items():
                mm = m_mul(rest, m2)
                v0 = out.get(mm, 0) + c * c2
                if v0 == 0:
                    out.pop(mm, None)
                else:
                    out[mm] = v0
            if len(out) > MAX_TERMS:
                raise TooBig()
        p = out
        if not changed:
            break
    return p


def link_rules(ctx, opaque):
    """abstraction symbols -> their defining expressions (applied only when the abstract form is not enough)"""
    rules, frac = {}, []
    for (v, power, e) in ctx.links:
        try:
            pn, pd = from_z3(e.n, opaque), from_z3(e.d, opaque)
        except TooBig:
            continue
        if any(x.startswith("@") for pp in (pn, pd) for m in pp for x, _ in m):
            continue
        if len(pd) == 1 and () in pd:
            rules[v.decl().name()] = (power, p_mul(pn, p_const(1 / pd[()])))
        elif power == 2:
            frac.append((v.decl().name(), pn, pd))
        else:
            frac.append((v.decl().name(), pn, pd))
    return rules, frac


def _clear_linear(p, name, pn, pd):
    """v -> N/D for a power-1 link with polynomial D: multiply through by D^deg"""
    deg = 0
    for m in p:
        for x, e in m:
            if x == name:
                deg = max(deg, e)
    if deg == 0:
        return p
    dpow, npow = [p_const(1)], [p_const(1)]
    for _ in range(deg):
        dpow.append(p_mul(dpow[-1], pd))
        npow.append(p_mul(npow[-1], pn))
    out = {}
    for m, c in p.items():
        e = 0
        for x, ee in m:
            if x == name:
                e = ee
        rest = tuple((a, b) for a, b in m if a != name)
        out = p_add(out, p_mul({rest: c}, p_mul(npow[e], dpow[deg - e])))
        if len(out) > MAX_TERMS:
            raise TooBig()
    return out


def normal_form(ctx, P):
    """returns (residual z3 term or None when zero, info)"""
    opaque = {}
    p = from_z3(P, opaque)
    n0 = len(p)
    rules, frac_rules = rules_of(ctx)
    if ctx.links:
        # phase 1: abstraction symbols stay atoms; their power-2 links (t = sqrt(...)) act as root rules
        r1 = dict(rules)
        f1 = list(frac_rules)
        for (v, power, e) in ctx.links:
            if power == 2:
                try:
                    pn, pd = from_z3(e.n, opaque), from_z3(e.d, opaque)
                except TooBig:
                    continue
                if any(x.startswith("@") for pp in (pn, pd) for m in pp for x, _ in m):
                    continue
                if len(pd) == 1 and () in pd:
                    r1[v.decl().name()] = (2, p_mul(pn, p_const(1 / pd[()])))
                else:
                    f1.append((v.decl().name(), pn, pd))
        q1 = reduce(p, r1)
        for _ in range(3):
            before = q1
            for name, pn, pd in reversed(f1):
                q1 = clear_fraction_rule(q1, name, pn, pd)
                q1 = reduce(q1, r1)
            if q1 == before:
                break
        if not q1:
            return None, {"terms_before": n0, "terms_after": 0, "rules": len(r1) + len(f1), "abstract": True}
        # phase 2: expand the abstraction symbols
        lr, lf = link_rules(ctx, opaque)
        rules = dict(rules)
        for k_, v_ in lr.items():
            if v_[0] == 1:
                rules[k_] = v_
        p = q1
        for name, pn, pd in lf:
            if any(l[0].decl().name() == name and l[1] == 1 for l in ctx.links):
                p = _clear_linear(p, name, pn, pd)
    q = reduce(p, rules)
    for _ in range(3):
        before = q
        for name, pn, pd in reversed(frac_rules):  # later generators may contain earlier ones
            q = clear_fraction_rule(q, name, pn, pd)
            q = reduce(q, rules)
        if q == before:
            break
    info = {"terms_before": n0, "terms_after": len(q), "rules": len(rules) + len(frac_rules)}
    if not q:
        return None, info
    varmap = {}
    for nm, (v, kind) in ctx.inputs.items():
        varmap[nm] = v
    varmap["pi"] = ctx.pi
    return to_z3(q, opaque, varmap), info
