"""NumPy lane: the real VectorNumpy*D / MomentumNumpy*D classes on structured arrays whose fields
have dtype object and hold symbolic scalars.

What is replaced (and only in the harness process):
  * `lib` of the lane's subclasses: maps the scalar term-building lib over object arrays;
  * `_wrap_dispatched_function` (the hook the real code already calls for this purpose): lifts the
    column arguments into an element-wise container so that comparisons inside kernels produce
    arrays of symbolic booleans instead of NumPy coercing them to bool;
  * `vector.backends.numpy._is_type_safe`: stubbed (it rejects dtype object).
Unchanged and exercised: _wrap_result, __array_finalize__, _getitem, _setitem, _reduce_sum,
__array_ufunc__, __array_function__, _handler_of, _flavor_of, _toarrays, _shape_of,
_array_from_columns.
"""
from __future__ import annotations

import operator

import numpy

from vector.backends import numpy as vn

from . import core, lanes

STUBS = ["vector.backends.numpy._is_type_safe -> always True (object dtype fields)"]


def _full(shape, x):
    out = numpy.empty(shape, dtype=object)
    for i in numpy.ndindex(shape):
        out[i] = x
    return out


class EV:
    """element-wise container of scalars (shape-preserving); only used inside kernels"""

    def __init__(self, arr):
        self.a = arr

    @property
    def shape(self):
        return self.a.shape

    def __hash__(self):
        return id(self)


def _bin(op):
    def f(self, other):
        b = other.a if isinstance(other, EV) else other
        return EV(numpy.frompyfunc(op, 2, 1)(self.a, b))

    def r(self, other):
        b = other.a if isinstance(other, EV) else other
        return EV(numpy.frompyfunc(lambda x, y: op(y, x), 2, 1)(self.a, b))

    return f, r


for _name, _op in (
    ("add", operator.add),
    ("sub", operator.sub),
    ("mul", operator.mul),
    ("truediv", operator.truediv),
    ("mod", operator.mod),
    ("and", operator.and_),
    ("or", operator.or_),
    ("pow", operator.pow),
):
    _f, _r = _bin(_op)
    setattr(EV, f"__{_name}__", _f)
    setattr(EV, f"__r{_name}__", _r)
for _name, _op in (("eq", operator.eq), ("ne", operator.ne), ("lt", operator.lt), ("le", operator.le), ("gt", operator.gt), ("ge", operator.ge)):
    setattr(EV, f"__{_name}__", _bin(_op)[0])


def _ibin(op):
    # ndarray semantics: an augmented assignment inside a kernel writes into the buffer it was given
    def f(self, other):
        b = other.a if isinstance(other, EV) else other
        self.a[...] = numpy.frompyfunc(op, 2, 1)(self.a, b)
        return self

    return f


for _name, _op in (("iadd", operator.add), ("isub", operator.sub), ("imul", operator.mul), ("itruediv", operator.truediv), ("imod", operator.mod), ("ipow", operator.pow)):
    setattr(EV, f"__{_name}__", _ibin(_op))
EV.__neg__ = lambda self: EV(numpy.frompyfunc(operator.neg, 1, 1)(self.a))
EV.__pos__ = lambda self: self
EV.__invert__ = lambda self: EV(numpy.frompyfunc(operator.invert, 1, 1)(self.a))
EV.__abs__ = lambda self: EV(numpy.frompyfunc(abs, 1, 1)(self.a))


class ArrLib:
    """maps a scalar lib over EV containers; plain scalars go straight to the scalar lib"""

    inf = float("inf")
    nan = float("nan")

    def __init__(self, scalar_lib):
        self._lib = scalar_lib

    def __repr__(self):
        return f"ArrLib({self._lib!r})"

    def __eq__(self, other):
        return isinstance(other, ArrLib) and other._lib is self._lib

    def __ne__(self, other):
        return not self.__eq__(other)

    def __hash__(self):
        return id(self._lib)

    @property
    def pi(self):
        return self._lib.pi

    def __getattr__(self, name):
        f = getattr(self._lib, name)

        def g(*args, **kw):
            evs = [a for a in list(args) + list(kw.values()) if isinstance(a, EV)]
            if not evs:
                return f(*args, **kw)
            shape = numpy.broadcast_shapes(*[e.a.shape for e in evs])
            arrs = [a.a if isinstance(a, EV) else _full((), a) for a in args]
            keys = list(kw)
            kws = [kw[k].a if isinstance(kw[k], EV) else _full((), kw[k]) for k in keys]
            n = len(arrs)

            def fn(*xs):
                return f(*xs[:n], **dict(zip(keys, xs[n:])))

            return EV(numpy.frompyfunc(fn, n + len(keys), 1)(*arrs, *kws))

        return g


def _wrap_dispatched(self, func):
    def g(lib, *args):
        a2 = [EV(a) if isinstance(a, numpy.ndarray) and a.dtype == object else a for a in args]
        out = func(lib, *a2)

        def conv(o):
            return o.a if isinstance(o, EV) else o

        return tuple(conv(o) for o in out) if isinstance(out, tuple) else conv(out)

    return g


_CACHE = {}


def classes(scalar_lib, prefix):
    """(object classes, numpy classes) of the lane for one scalar lib"""
    key = (id(scalar_lib), prefix)
    if key in _CACHE:
        return _CACHE[key]
    vn._is_type_safe = lambda a: True
    alib = ArrLib(scalar_lib)
    ocls = lanes.make_object_classes(alib, prefix + "O")

    def mkn(base, name):
        return type(prefix + name, (base,), {"lib": alib, "_wrap_dispatched_function": _wrap_dispatched})

    N = {
        (2, False): mkn(vn.VectorNumpy2D, "NV2"),
        (2, True): mkn(vn.MomentumNumpy2D, "NM2"),
        (3, False): mkn(vn.VectorNumpy3D, "NV3"),
        (3, True): mkn(vn.MomentumNumpy3D, "NM3"),
        (4, False): mkn(vn.VectorNumpy4D, "NV4"),
        (4, True): mkn(vn.MomentumNumpy4D, "NM4"),
    }
    for d in (2, 3, 4):
        g, m = N[(d, False)], N[(d, True)]
        for c, flav in ((g, False), (m, True)):
            c.ProjectionClass2D, c.ProjectionClass3D, c.ProjectionClass4D = N[(2, flav)], N[(3, flav)], N[(4, flav)]
            c.GenericClass, c.MomentumClass = g, m
            c.ObjectClass = ocls[(d, flav)]
    _CACHE[key] = (ocls, N, alib)
    return _CACHE[key]


def field_names(system):
    return list(lanes.AZ_NAMES[system[0]]) + list(system[1:])


def build_array(N, system, columns, shape, momentum=False):
    """columns: list (per coordinate) of object ndarrays of the given shape"""
    names = field_names(system)
    a = numpy.empty(shape, dtype=[(nm, object) for nm in names])
    for nm, col in zip(names, columns):
        a[nm] = col
    return a.view(N[(len(system) + 1, momentum)])


def element_coords(arr, idx):
    """(system, stored coordinates) of element idx of a vector array of the lane"""
    names = [n for n in arr.dtype.names]
    system = []
    if "x" in names and "y" in names:
        system.append("xy")
        coords = [arr["x"][idx], arr["y"][idx]]
    else:
        system.append("rhophi")
        coords = [arr["rho"][idx], arr["phi"][idx]]
    for l in ("z", "theta", "eta"):
        if l in names:
            system.append(l)
            coords.append(arr[l][idx])
    for t in ("t", "tau"):
        if t in names:
            system.append(t)
            coords.append(arr[t][idx])
    return tuple(system), coords
