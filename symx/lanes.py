"""Lanes: the real vector classes of /repo executed on non-float scalars.

object lane: subclasses of the real VectorObject*D / MomentumObject*D whose `lib` is replaced
(symbolic term builder, or an mpmath adapter for replay).  Nothing else is overridden: dispatch,
_from_signature, _handler_of, _flavor_of, the kernels, _wrap_result, operators, setters and
in-place operators are the repository's code.
"""
from __future__ import annotations

import numbers

import mpmath as mp

from vector.backends import object as vo

SYS2 = [("xy",), ("rhophi",)]
SYS3 = [(a, l) for a in ("xy", "rhophi") for l in ("z", "theta", "eta")]
SYS4 = [(a, l, t) for a in ("xy", "rhophi") for l in ("z", "theta", "eta") for t in ("t", "tau")]
ALL_SYS = {2: SYS2, 3: SYS3, 4: SYS4}
CART = {2: ("xy",), 3: ("xy", "z"), 4: ("xy", "z", "t")}

AZ = {"xy": vo.AzimuthalObjectXY, "rhophi": vo.AzimuthalObjectRhoPhi}
LO = {"z": vo.LongitudinalObjectZ, "theta": vo.LongitudinalObjectTheta, "eta": vo.LongitudinalObjectEta}
TE = {"t": vo.TemporalObjectT, "tau": vo.TemporalObjectTau}
AZ_NAMES = {"xy": ("x", "y"), "rhophi": ("rho", "phi")}


def sysname(s):
    return "_".join(s)


def make_object_classes(lib, prefix):
    """subclasses of the real object-backend classes with another `lib`"""

    def mk(base, name):
        return type(prefix + name, (base,), {"lib": lib, "__slots__": ()})

    V2, M2 = mk(vo.VectorObject2D, "V2"), mk(vo.MomentumObject2D, "M2")
    V3, M3 = mk(vo.VectorObject3D, "V3"), mk(vo.MomentumObject3D, "M3")
    V4, M4 = mk(vo.VectorObject4D, "V4"), mk(vo.MomentumObject4D, "M4")
    for g, m in ((V2, M2), (V3, M3), (V4, M4)):
        for c, (p2, p3, p4) in ((g, (V2, V3, V4)), (m, (M2, M3, M4))):
            c.ProjectionClass2D, c.ProjectionClass3D, c.ProjectionClass4D = p2, p3, p4
            c.GenericClass, c.MomentumClass = g, m
    return {(2, False): V2, (2, True): M2, (3, False): V3, (3, True): M3, (4, False): V4, (4, True): M4}


def build(classes, system, coords, momentum=False):
    """construct a vector of the lane from stored coordinates (bypasses the value type guard,
    which is exercised separately by the constructor property)"""
    az = AZ[system[0]](coords[0], coords[1])
    if len(system) == 1:
        return classes[(2, momentum)](azimuthal=az)
    lo = LO[system[1]](coords[2])
    if len(system) == 2:
        return classes[(3, momentum)](azimuthal=az, longitudinal=lo)
    te = TE[system[2]](coords[3])
    return classes[(4, momentum)](azimuthal=az, longitudinal=lo, temporal=te)


def stored(v):
    """(system tuple, stored coordinate list) of any object-backend vector"""
    a = v.azimuthal
    system = ["xy" if isinstance(a, vo.AzimuthalObjectXY) else "rhophi"]
    coords = list(a.elements)
    if hasattr(v, "longitudinal"):
        l = v.longitudinal
        system.append("z" if isinstance(l, vo.LongitudinalObjectZ) else "theta" if isinstance(l, vo.LongitudinalObjectTheta) else "eta")
        coords += list(l.elements)
        if hasattr(v, "temporal"):
            t = v.temporal
            system.append("t" if isinstance(t, vo.TemporalObjectT) else "tau")
            coords += list(t.elements)
    return tuple(system), coords


# ------------------------------------------------------------------------------------------
# mpmath adapter (replay lane): the same real classes on 50-digit numbers
# ------------------------------------------------------------------------------------------

mp.mp.dps = 50
numbers.Real.register(mp.mpf)


class Undefined(ArithmeticError):
    pass


def _nan_guard(f):
    def g(*a, **k):
        try:
            return f(*a, **k)
        except (ZeroDivisionError, ValueError):
            return mp.nan

    return g


class MpLib:
    pi = mp.pi
    inf = mp.inf
    nan = mp.nan

    def __repr__(self):
        return "MpLib"

    @staticmethod
    def sqrt(a):
        a = mp.mpf(a)
        return mp.sqrt(a) if a >= 0 else mp.nan

    @staticmethod
    def cbrt(a):
        return mp.cbrt(a)

    sin = staticmethod(mp.sin)
    cos = staticmethod(mp.cos)
    tan = staticmethod(_nan_guard(mp.tan))
    arctan2 = staticmethod(lambda y, x: mp.atan2(y, x))
    arctan = staticmethod(mp.atan)
    exp = staticmethod(mp.exp)
    sinh = staticmethod(mp.sinh)
    cosh = staticmethod(mp.cosh)
    tanh = staticmethod(mp.tanh)
    arcsinh = staticmethod(mp.asinh)

    @staticmethod
    def arccos(a):
        a = mp.mpf(a)
        return mp.acos(a) if -1 <= a <= 1 else mp.nan

    @staticmethod
    def arcsin(a):
        a = mp.mpf(a)
        return mp.asin(a) if -1 <= a <= 1 else mp.nan

    @staticmethod
    def log(a):
        a = mp.mpf(a)
        if a > 0:
            return mp.log(a)
        return -mp.inf if a == 0 else mp.nan

    @staticmethod
    def absolute(a):
        return abs(a)

    @staticmethod
    def sign(a):
        return mp.sign(a)

    @staticmethod
    def copysign(a, b):
        return abs(a) if b >= 0 else -abs(a)

    @staticmethod
    def maximum(a, b):
        if mp.isnan(a) or mp.isnan(b):
            return mp.nan
        return a if a >= b else b

    @staticmethod
    def minimum(a, b):
        if mp.isnan(a) or mp.isnan(b):
            return mp.nan
        return a if a <= b else b

    @staticmethod
    def nan_to_num(a, nan=0.0, posinf=None, neginf=None):
        a = mp.mpf(a) if not isinstance(a, mp.mpf) else a
        if mp.isnan(a):
            return nan
        if a == mp.inf:
            return posinf if posinf is not None else mp.mpf("1e4000")
        if a == -mp.inf:
            return neginf if neginf is not None else -mp.mpf("1e4000")
        return a

    @staticmethod
    def isclose(a, b, rtol=1e-5, atol=1e-8, equal_nan=False):
        return abs(a - b) <= atol + rtol * abs(b)


MPLIB = MpLib()

# mpf raises on division by zero; the real float code yields inf/nan.  Emulate IEEE there.
_mpf_div = mp.mpf.__truediv__
_mpf_rdiv = mp.mpf.__rtruediv__


def _safe_div(a, b):
    try:
        return _mpf_div(a, b)
    except ZeroDivisionError:
        a = mp.mpf(a)
        if a == 0 or mp.isnan(a):
            return mp.nan
        return mp.inf if a > 0 else -mp.inf


def _safe_rdiv(b, a):
    try:
        return _mpf_rdiv(b, a)
    except ZeroDivisionError:
        a = mp.mpf(a)
        if a == 0 or mp.isnan(a):
            return mp.nan
        return mp.inf if a > 0 else -mp.inf


mp.mpf.__truediv__ = _safe_div
mp.mpf.__rtruediv__ = _safe_rdiv

# Comparisons whose operands differ by less than 1e-30 (relative) without being identical sit on
# a boundary that 50-digit rounding cannot resolve: a replay that met one is not trusted.
FRAGILE = [0]
_FRAG_TOL = mp.mpf("1e-30")
_orig_cmp = {n: getattr(mp.mpf, n) for n in ("__lt__", "__le__", "__gt__", "__ge__", "__eq__", "__ne__")}


def _mk_cmp(name):
    orig = _orig_cmp[name]
    o_eq, o_le = _orig_cmp["__eq__"], _orig_cmp["__le__"]

    def f(a, b):
        r = orig(a, b)
        try:
            bb = b if isinstance(b, mp.mpf) else mp.mpf(b)
            if not (mp.isnan(a) or mp.isnan(bb) or mp.isinf(a) or mp.isinf(bb)):
                d = abs(a - bb)
                if not o_eq(d, 0) and o_le(d, _FRAG_TOL * (1 + abs(a) + abs(bb))):
                    FRAGILE[0] += 1
        except Exception:
            pass
        return r

    return f


for _n in _orig_cmp:
    setattr(mp.mpf, _n, _mk_cmp(_n))

_MP_CLASSES = None


def mp_classes():
    global _MP_CLASSES
    if _MP_CLASSES is None:
        _MP_CLASSES = make_object_classes(MPLIB, "Mp")
    return _MP_CLASSES
