#!/usr/bin/env python3
"""Summarise full-tier survey dumps (./check PID --tier thorough --dump FILE) into reports/survey.json + a markdown table."""
import json, sys, os, collections
HERE = os.path.dirname(os.path.dirname(os.path.abspath(__file__)))
rows = {}
for path in sys.argv[1:]:
    pid = os.path.basename(path).split(".")[0]
    fam = collections.Counter(); goals = collections.Counter(); wall = 0.0; q = 0; ss = 0.0
    for l in open(path):
        r = json.loads(l)
        fam[r["status"]] += 1
        wall += r.get("wall_s") or 0
        st = r.get("stats") or {}
        q += st.get("queries", 0); ss += st.get("solver_s", 0)
        for g in r.get("goals") or []:
            goals[g.get("verdict")] += 1
    rows[pid] = {"families": dict(fam), "goals": dict(goals), "cpu_wall_s": round(wall), "queries": q, "solver_s": round(ss)}
json.dump(rows, open(os.path.join(HERE, "reports", "survey.json"), "w"), indent=1, sort_keys=True)
print("| id | families | proved | violations(known) | undecided | goals discharged / decided by solver | queries | solver s |")
print("|----|----------|--------|-------------------|-----------|--------------------------------------|---------|----------|")
for pid in sorted(rows):
    r = rows[pid]; f = r["families"]; g = r["goals"]
    n = sum(f.values())
    print(f"| {pid} | {n} | {f.get('proved',0)} | {f.get('violation',0)} | {f.get('inconclusive',0)+f.get('error',0)} | {g.get('unsat',0)+g.get('concrete-true',0)} / {g.get('unsat',0)+g.get('sat',0)+g.get('unknown',0)} | {r['queries']} | {r['solver_s']} |")
