#!/bin/sh
# Runs the registered quick checks against every seeded change in a scratch worktree (never /repo).
# usage: tools/seeded_eval.sh <scratch worktree> <out.jsonl> [ids...]
WT=$1; OUT=$2; shift 2
cd "$(dirname "$0")/.."
MAP="C01-m1:C01,C11,C02 C01-m2:C01,C02 C02-m2:C02,C10 C03-m1:C03 C03-m2:C03 C04-m1:C04,C03 C04-m2:C04 C05-m1:C05,C03 C05-m2:C05 C06-m1:C06 C06-m2:C06 C08-m1:C08 C08-m2:C08 C09-m1:C09 C09-m2:C09,C01 C10-m1:C10,C02 C10-m2:C10,C02 C11-m1:C11,C01,C02 C12-m1:C12 C12-m2:C12 C13-m1:C13 C13-m2:C13 C14-m1:C14,C04 C14-m2:C14,C06 C15-m1:C15 C15-m2:C15,C14 C16-m1:C16,C03 C16-m2:C16,C03 C17-m1:C17 C17-m2:C17 D01-m1:C01,C13 D01-m2:C01,C02 D02-m1:C01,C02 D02-m2:C02,C01 D03-m1:C03 D03-m2:C03 D05-m1:C05 D05-m2:C05 D06-m1:C02,C10 D06-m2:C02,C09,C01 D12-m1:C12 D12-m2:C12,C03 D13-m1:C13 D13-m2:C13 D15-m1:C15 D15-m2:C15 E04-m1:C04,C14 E04-m2:C04,C03 E08-m1:C08 E08-m2:C08 E09-m1:C01,C09 E10-m1:C10,C02 E10-m2:C02,C10 E11-m1:C11,C01 E11-m2:C11 E14-m1:C14 E14-m2:C14,C15 E16-m1:C17,C16 E16-m2:C16,C03 E17-m1:C17 E17-m2:C02,C17"
for entry in $MAP; do
  id=${entry%%:*}; pids=${entry##*:}
  if [ $# -gt 0 ]; then case " $* " in *" $id "*) ;; *) continue;; esac; fi
  for pid in $(echo $pids | tr ',' ' '); do
    .venv/bin/python tools/mutant_eval.py check $WT /verif/seeded/$id -- $pid --tier ${TIER:-quick} --no-evidence --procs 16 >> $OUT
  done
done
