#!/usr/bin/env python3
"""Move the families a thorough run left inconclusive on the pinned tree outside the claim (bounds.json).
usage: bounds_from_log.py PID LOG [date]   -- reads the '[n/m] inconclusive <family> <s>s <reason>' lines of ./check PID --tier thorough"""
import json, os, re, sys

HERE = os.path.dirname(os.path.dirname(os.path.abspath(__file__)))
pid, log = sys.argv[1], open(sys.argv[2]).read()
date = sys.argv[3] if len(sys.argv) > 3 else "2026-10-05"
b = json.load(open(os.path.join(HERE, "bounds.json")))
v = b.setdefault(pid, {})
for k in ("outside_claim", "outside_goals", "slow"):
    v.setdefault(k, {})
fams = {}
for m in re.finditer(r"inconclusive (%s/\S+)\s+[\d.]+s\s+(.*)" % pid, log):
    fams[m.group(1)] = m.group(2)
n = 0
for k, why in fams.items():
    if "outside the claim" in why or k in v["outside_claim"]:
        continue
    goals = re.findall(r"([^,=]+?)=(?:unknown|sat)", why.replace("undecided goals: ", ""))
    goals = [g.strip() for g in goals]
    plain = [g for g in goals if not g.startswith("defined#")]
    if "worker process died" in why or "exceeded" in why or not plain or len(plain) != len(goals):
        v["outside_claim"][k] = f"inconclusive in the thorough run of {date} on the pinned tree: {why[:140]}"
        v["slow"].pop(k, None)
        v["outside_goals"].pop(k, None)
    else:
        v["outside_goals"][k] = sorted(set(v["outside_goals"].get(k, [])) | set(plain))
    n += 1
    print(k, "->", why[:100])
json.dump(b, open(os.path.join(HERE, "bounds.json"), "w"), indent=1)
print(n, "families moved")
