#!/usr/bin/env python3
"""Bookkeeping for seeded changes (/verif/seeded/<id>/).

  mkseeded.py add ID PROPERTY SRCDIR NEEDS VALIDATION.json...   copy patch.diff/demo.py/notes.md, write meta.json from the
                                                                validation lines of tools/mutant_eval.py validate
  mkseeded.py detect OUT.jsonl [--key quick_checks|after_strengthening]   fold tools/seeded_eval.sh results into meta.json
  mkseeded.py note ID KEY TEXT                                  set detection.not_reachable / strengthened
  mkseeded.py report                                            regenerate reports/seeded.md
"""
import glob, json, os, shutil, sys

HERE = os.path.dirname(os.path.dirname(os.path.abspath(__file__)))
SEED = os.path.join(HERE, "seeded")


def hit(x):
    """an entry of quick_checks / after_strengthening reports the change (older entries are free text)"""
    if isinstance(x, str):
        return "exit 1" in x
    return x["exit"] == 1 and x["violations"] > 0


def load(i):
    return json.load(open(os.path.join(SEED, i, "meta.json")))


def save(i, m):
    json.dump(m, open(os.path.join(SEED, i, "meta.json"), "w"), indent=1)


def add(i, prop, src, needs, vals):
    d = os.path.join(SEED, i)
    os.makedirs(d, exist_ok=True)
    for f in ("patch.diff", "demo.py", "notes.md"):
        shutil.copy(os.path.join(src, f), os.path.join(d, f))
    v = None
    for p in vals:
        for l in open(p):
            try:
                r = json.loads(l)
            except Exception:
                continue
            if os.path.abspath(r["dir"]) == os.path.abspath(src):
                v = r
    assert v and v["valid"], (i, v)
    m = {
        "id": i,
        "property": prop,
        "also_breaks": [],
        "needs_to_manifest": needs,
        "produced_by": "independent sub-agent given only the property text and a scratch worktree of /repo HEAD (7f73857)",
        "files_changed": v["files"],
        "validated": {
            "scratch_worktree": "/tmp/mutwt* (git worktree of /repo HEAD, removed afterwards)",
            "demo_on_clean_tree_exit": v["demo_clean_exit"],
            "demo_on_changed_tree_exit": v["demo_patched_exit"],
            "full_test_suite_on_changed_tree": v["tests_summary"],
            "same_failing_set_as_clean_tree": v["tests_same_as_baseline"],
            "command": "tools/mutant_eval.py validate <worktree> <dir>",
        },
        "detection": {"tool": "tools/seeded_eval.sh (registered quick commands, scratch worktree, PYTHONPATH override)", "quick_checks": {}, "after_strengthening": {}, "not_reachable": None},
        "caught_by": [],
    }
    save(i, m)


def detect(path, key):
    for l in open(path):
        try:
            r = json.loads(l)
        except Exception:
            continue
        i = os.path.basename(r["dir"].rstrip("/"))
        if not os.path.exists(os.path.join(SEED, i, "meta.json")):
            continue
        m = load(i)
        ex = (r.get("first") or ["", ""])[-1].strip()[:300] if r.get("violations") else ""
        m["detection"].setdefault(key, {})[r["pid"]] = {"exit": r["exit"], "violations": r["violations"], "seconds": r["s"], "example": ex}
        caught = []
        for k in ("quick_checks", "after_strengthening"):
            for pid, x in m["detection"].get(k, {}).items():
                if hit(x) and pid not in caught:
                    caught.append(pid)
        m["caught_by"] = caught
        save(i, m)


def report():
    rows = []
    for p in sorted(glob.glob(os.path.join(SEED, "*", "meta.json"))):
        m = json.load(open(p))
        det = m["detection"]
        q = [pid for pid, x in det.get("quick_checks", {}).items() if hit(x)]
        a = [pid + "*" for pid, x in det.get("after_strengthening", {}).items() if hit(x) and pid not in q]
        c = ", ".join(q + a) if (q or a) else "— (" + (det.get("not_reachable") or "missed")[:70] + ")"
        rows.append(f"| {m['id']} | {m['needs_to_manifest'][:120].replace('|', '¦')} | {c} |")
    out = ["| id | needs | caught by (quick tier) |", "|----|-------|------------------------|"] + rows
    out.append("")
    out.append("`*` = caught after the check was strengthened in response to this change (recorded in meta.json: detection.after_strengthening).")
    open(os.path.join(HERE, "reports", "seeded.md"), "w").write("\n".join(out) + "\n")
    print("\n".join(out))


if __name__ == "__main__":
    cmd = sys.argv[1]
    if cmd == "add":
        add(sys.argv[2], sys.argv[3], sys.argv[4], sys.argv[5], sys.argv[6:])
    elif cmd == "detect":
        key = sys.argv[sys.argv.index("--key") + 1] if "--key" in sys.argv else "quick_checks"
        detect(sys.argv[2], key)
    elif cmd == "note":
        m = load(sys.argv[2])
        m["detection"][sys.argv[3]] = sys.argv[4]
        save(sys.argv[2], m)
    elif cmd == "report":
        report()
