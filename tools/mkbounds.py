#!/usr/bin/env python3
"""Derive bounds.json entries (quick / thorough-only / outside the claim) of one property from
per-family result dumps (./check PID --dump FILE).  Later dumps override earlier ones.
usage: mkbounds.py PID quick_wall_s dump1.jsonl [dump2.jsonl ...]"""
import json, os, sys

HERE = os.path.dirname(os.path.dirname(os.path.abspath(__file__)))
pid, limit = sys.argv[1], float(sys.argv[2])
res = {}
for path in sys.argv[3:]:
    for line in open(path):
        r = json.loads(line)
        res[r["key"]] = r
bpath = os.path.join(HERE, "bounds.json")
bounds = json.load(open(bpath)) if os.path.exists(bpath) else {}
pb = bounds.setdefault(pid, {})
keep_out = {k: v for k, v in pb.get("outside_claim", {}).items() if "*" in k}
slow, out, og = {}, dict(keep_out), {}
for k, r in sorted(res.items()):
    if r["status"] == "proved":
        if r["wall_s"] > limit:
            slow[k] = round(r["wall_s"], 1)
    elif r["status"] == "inconclusive":
        goals = r.get("goals") or []
        bad = [g["label"] for g in goals if g.get("verdict") in ("sat", "unknown")]
        good = [g for g in goals if g.get("verdict") == "unsat"]
        if goals and bad and good and len(bad) <= max(1, len(goals) // 2) and "exceeded" not in (r.get("reason") or ""):
            og[k] = bad  # the rest of the family stays claimed
            est = sum(g.get("s") or 0 for g in goals if g.get("verdict") == "unsat") + 0.15 * len(goals) + 0.5
            if est > limit:
                slow[k] = round(est, 1)
        else:
            out[k] = "inconclusive on the pinned tree: " + (r.get("reason") or "")[:160]
pb["slow"] = slow
pb["outside_claim"] = out
pb["outside_goals"] = og
json.dump(bounds, open(bpath, "w"), indent=1, sort_keys=True)
print(pid, "outside_goals families:", len(og), "goals:", sum(len(v) for v in og.values()))
print(pid, "quick:", sum(1 for r in res.values() if r["status"] == "proved") - len(slow), "slow:", len(slow), "outside:", len(out) - len(keep_out),
      "other:", [k for k, r in res.items() if r["status"] not in ("proved", "inconclusive")][:10])
