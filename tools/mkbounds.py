#!/usr/bin/env python3
"""Derive bounds.json entries (quick / thorough-only / outside the claim) of one property from
per-family result dumps (./check PID --dump FILE).  Later dumps override earlier ones.
usage: mkbounds.py PID quick_wall_s dump1.jsonl [dump2.jsonl ...]"""
import json, os, sys

HERE = os.path.dirname(os.path.dirname(os.path.abspath(__file__)))
pid, limit = sys.argv[1], float(sys.argv[2])
res = {}
for path in sys.argv[3:]:
    for line in open(path):
        r = json.loads(line)
        res[r["key"]] = r
bpath = os.path.join(HERE, "bounds.json")
bounds = json.load(open(bpath)) if os.path.exists(bpath) else {}
pb = bounds.setdefault(pid, {})
keep_out = {k: v for k, v in pb.get("outside_claim", {}).items() if "*" in k}
slow, out, og = {}, dict(keep_out), {}
def _undecided(g):
    # a goal that was already outside the claim stays outside unless the hunt proved it within its short budget
    return g.get("verdict") in ("sat", "unknown") or (g.get("verdict") == "outside-claim" and g.get("hunt") != "unsat")


for k, r in sorted(res.items()):
    goals = r.get("goals") or []
    if r["status"] == "proved":
        keep = [g["label"] for g in goals if _undecided(g)]
        if keep:
            og[k] = keep
        if r["wall_s"] > limit:
            slow[k] = round(r["wall_s"], 1)
    elif r["status"] == "inconclusive":
        bad = [g["label"] for g in goals if _undecided(g)]
        good = [g for g in goals if g.get("verdict") == "unsat"]
        if goals and bad and good and len(bad) <= max(1, len(goals) // 2) and "exceeded" not in (r.get("reason") or ""):
            og[k] = bad  # the rest of the family stays claimed
            # symbolic execution itself (pruning / merging queries, possibly two encodings) is part of the cost:
            # a partially claimed family is in the quick tier only if its whole measured run was short
            if r["wall_s"] > limit:
                slow[k] = round(r["wall_s"], 1)
        else:
            out[k] = "inconclusive on the pinned tree: " + (r.get("reason") or "")[:160]
pb["slow"] = slow
pb["outside_claim"] = out
pb["outside_goals"] = og
json.dump(bounds, open(bpath, "w"), indent=1, sort_keys=True)
print(pid, "outside_goals families:", len(og), "goals:", sum(len(v) for v in og.values()))
print(pid, "quick:", sum(1 for r in res.values() if r["status"] == "proved") - len(slow), "slow:", len(slow), "outside:", len(out) - len(keep_out),
      "other:", [k for k, r in res.items() if r["status"] not in ("proved", "inconclusive")][:10])
