#!/bin/sh
# Runs every registered check (tier $1 = quick|thorough) and validates the evidence files.
cd "$(dirname "$0")/.."
TIER=${1:-quick}
rc=0
for p in $(python3 -c "import json; print(' '.join(c['property_id'] for c in json.load(open('MANIFEST.json'))['checks']))"); do
  s=$(date +%s)
  ./check $p --tier $TIER > /tmp/check_$p.$TIER.log 2>&1; e=$?
  echo "$p exit=$e $(( $(date +%s) - s ))s $(tail -1 /tmp/check_$p.$TIER.log | cut -c1-200)"
  [ $e -ne 0 ] && rc=1
done
.venv/bin/python - <<'PY'
import json, jsonschema, glob
sch=json.load(open('/root/.vp/EVIDENCE.schema.json'))
for f in sorted(glob.glob('evidence/*.json')):
    try: jsonschema.validate(json.load(open(f)), sch); print(f, 'valid')
    except Exception as ex: print(f, 'INVALID', str(ex)[:200])
PY
exit $rc
