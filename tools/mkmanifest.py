#!/usr/bin/env python3
"""Regenerates /verif/MANIFEST.json from the table below (keeps it valid against the schema)."""
import json, os, sys

HERE = os.path.dirname(os.path.dirname(os.path.abspath(__file__)))

TECH = "symbolic execution of the real Python code on z3 term scalars; z3 (QF_NRA) decides each obligation; counterexamples replayed on the real code"

CLAIMS = {
    "C01": dict(
        text="Bounded SMT checking of the symbolically executed real code: for every dispatch_map entry of every compute module (read from /repo at run time) the module's dispatch entry is executed on object-backend vectors whose coordinates are z3 terms, once stored in the entry's coordinate systems and once in Cartesian coordinates holding the same geometric vector; z3 decides that both results denote the same value for all real operands of the representable domain. Exact-real semantics: float rounding is outside the claim.",
        note="Trusted: z3 5.1, the axiom schemas for sqrt/sin/cos/atan2/acos/atan/exp/log/mod in symx/core.py, the decoding of stored coordinates in spec/model.py. Assumes the representable domain stated in the property (rho>0, -pi<phi<=pi, 0<theta<pi, tau>=0, off-axis for theta/eta) plus per-operation finiteness conditions listed in props/c01.py::extra_domain. isclose is excluded (system-dependent by definition, see C12). Obligations listed in bounds.json are outside the claim.",
        design="DESIGN.md §4 C01",
    ),
}

NOT_APPLICABLE = {
    "C07": "numba: the property is about LLVM-compiled machine code and numba's typing/lowering extension API; no symbolic engine for native code is installed and CrossHair realises at the compiled boundary (DESIGN.md §5)",
    "C18": "Awkward layouts, option masks and field sets live in C++/NumPy buffers manipulated by ak.zip/ak.transform; no symbolic value can flow through an Awkward array, so there is no term to hand to a solver (DESIGN.md §5)",
    "C19": "NumPy indexing/slicing/views/pickling run in NumPy C code and the property has no value-dependent content: in this family it would be enumeration of concrete runs, not a solver verdict (DESIGN.md §5)",
    "C20": "process-global C state (numpy.errstate, warnings filters, awkward.behavior) and CPython thread schedules are not computed by code that can be executed symbolically (DESIGN.md §5)",
}
PENDING = "check not built yet in this session; planned as described in DESIGN.md §4"
ALL = [f"C{n:02d}" for n in range(1, 21)]


def main():
    checks = []
    for pid, c in CLAIMS.items():
        checks.append(
            {
                "property_id": pid,
                "quick_cmd": f"./check {pid} --tier quick",
                "thorough_cmd": f"./check {pid} --tier thorough",
                "evidence_file": f"/verif/evidence/{pid}.json",
                "replay_cmd_template": f"./check {pid} --replay {{path}}",
                "engine": "symx",
                "level_claimed": {"category": "other", "text": c["text"], "design_ref": c["design"]},
                "level_note": c["note"],
                "technique": c.get("technique", TECH),
            }
        )
    na = []
    for pid in ALL:
        if pid in CLAIMS:
            continue
        na.append({"property_id": pid, "reason": NOT_APPLICABLE.get(pid, PENDING)})
    m = {
        "version": 1,
        "setup_cmd": "./setup.sh",
        "hooks": {
            "guard": "SCIKIT_HEP_VECTOR_VERIF",
            "enable": "no hooks are needed: the checks subclass the real backend classes in-process and replace only the `lib` class attribute (DESIGN.md §2.5)",
            "baseline_off_cmd": "cd /repo && /venv/bin/python -m pytest -ra -q -p no:cacheprovider --timeout=900 --continue-on-collection-errors",
            "source_commits": [],
            "add_only": True,
        },
        "engines": [
            {
                "name": "symx",
                "path": "/verif/symx",
                "serves_properties": sorted(CLAIMS),
                "kind_free_text": "symbolic executor for the real vector code (z3 term scalars, axiomatised transcendental functions, CEGAR over the fact set) + concrete replay lane (mpmath / float64)",
            }
        ],
        "checks": checks,
        "not_applicable": na,
        "notes": "See DESIGN.md. Exit codes of ./check: 0 property held on everything explored, 1 violation (VIOLATION line + replay file), 2 inconclusive (never on the unchanged tree), 3 harness error.",
    }
    with open(os.path.join(HERE, "MANIFEST.json"), "w") as f:
        json.dump(m, f, indent=1)
    try:
        import jsonschema

        jsonschema.validate(m, json.load(open("/root/.vp/MANIFEST.schema.json")))
        print("MANIFEST.json valid;", len(checks), "checks,", len(na), "not applicable")
    except ImportError:
        print("written (jsonschema not available)")


if __name__ == "__main__":
    main()
