#!/usr/bin/env python3
"""Regenerates /verif/MANIFEST.json from the table below (keeps it valid against the schema)."""
import json, os, sys

HERE = os.path.dirname(os.path.dirname(os.path.abspath(__file__)))

TECH = "symbolic execution of the real Python code on z3 term scalars; z3 (QF_NRA) decides each obligation; counterexamples replayed on the real code"

COMMON_NOTE = (" Trusted: z3 5.1 (QF_NRA/nlsat), the axiom schemas for sqrt/sin/cos/atan2/acos/atan/exp/log/mod in symx/core.py (sound facts about the real functions: unsat transfers, sat is only a candidate that must replay on the real code), the polynomial normal-form rewriting in symx/poly.py, spec/model.py where it is the oracle. Exact-real semantics: float64 rounding, overflow and signed zeros are outside the claim. Obligations listed in bounds.json -> outside_claim are not claimed (inconclusive within the budget on the pinned tree); bounds.json -> slow run only in the thorough tier.")

CLAIMS = {
    "C01": dict(
        text="Bounded SMT checking of the symbolically executed real code: for every dispatch_map entry of every compute module (read from /repo at run time) the module's dispatch entry is executed on object-backend vectors whose coordinates are z3 terms, once stored in the entry's coordinate systems and once in Cartesian coordinates holding the same geometric vector; z3 decides that both results denote the same value for all real operands of the representable domain, and that every sub-expression is defined there.",
        note="Representable domain as stated in the property (rho>0, -pi<phi<=pi, 0<theta<pi, tau>=0, off-axis for theta/eta, result representable in the returned system) plus per-operation finiteness conditions in props/c01.py::extra_domain; spacelike operands (negative stored tau, t^2 = mag^2 - tau^2 > 0) for the unary Lorentz modules and for lower-dimensional vector operations on tau-stored 4D operands. isclose is excluded (system-dependent by definition, see C12). Known findings: Et and to_beta3 for t<0, Mt2 of spacelike vectors with t^2 < z^2 (known_findings.json)." + COMMON_NOTE,
        design="DESIGN.md §4 C01",
    ),
    "C02": dict(
        text="Bounded SMT checking against an independent reference model: every public accessor/operation of the object backend is executed on z3-term vectors in every coordinate system and z3 decides equality with the documented definition (spec/model.py) for all real operands where the definition is finite (timelike and, for the accessors defined there, spacelike tau-stored operands). IEEE guard lane: the same dispatch entries executed on an order abstraction of IEEE-754 arithmetic (fresh variable per operation, only facts valid for every correctly rounded result); z3 decides for 1952 variants of 66 modules that every argument reaching sqrt/arccos/arcsin is in the domain under every rounding, and for 444 variants of 40 modules that a zero first operand (every stored coordinate 0) yields a NaN-free result (0/0 modelled as NaN, nan_to_num guards); abstract counterexamples are replayed on the float64 backend with an instrumented numpy.",
        note="Second operands: Cartesian, same system and one rotating mixed system (all mixes: C01). The 'small multiple of rounding error' clause of the property is not claimed; the guard lane claims only 'no NaN from sqrt/arccos/arcsin for finite operands' (outside: overflow, underflow of squares, zero denominators, arithmetic on infinities; Mt, boost_beta3, boost_p4, gamma, isclose). Known finding: Mt2 of tau-stored spacelike vectors with t^2 < z^2." + COMMON_NOTE,
        design="DESIGN.md §4 C02",
    ),
    "C03": dict(
        text="Bounded SMT checking on two backends at once: the object backend and the real NumPy backend classes (on structured arrays of dtype object holding the same z3-term scalars) execute each property/method; per element the array result must be the object result (same term or z3-equal), with the same fields, shape, class and flavor; NumPy x NumPy, NumPy x object, object x NumPy pairings; scalar arguments as scalars and arrays; keyword-imputed coordinates as arrays; numpy.equal/not_equal/isclose/allclose function forms.",
        note="PARTIAL: Awkward arrays/records are not reachable (C++ buffers). Lane stubs: vector.backends.numpy._is_type_safe (rejects object dtype) and the lane subclasses' lib/_wrap_dispatched_function (DESIGN.md §2.5)." + COMMON_NOTE,
        design="DESIGN.md §4 C03",
    ),
    "C04": dict(
        text="Bounded SMT checking + object identity: all 40 to_* spellings x 20 source systems x both flavors, to_VectorND/to_ND/like with every keyword: same-system conversion returns the stored objects themselves, every conversion and round trip denotes the same vector (z3), retained coordinates are the same objects, imputed coordinates are exactly the keyword's object in the named coordinate type or literal zero, conflicting keywords raise.",
        note="Object backend (NumPy field placement is exercised through C03's lane); identity of Python objects is the oracle for 'bit-for-bit'." + COMMON_NOTE,
        design="DESIGN.md §4 C04",
    ),
    "C05": dict(
        text="Single-path symbolic execution over the finite lattice (method x coordinate-system signature x flavor of each operand x dimension pairing): result class, flavor, dimension, stored coordinate classes observed on one symbolic path hold for every value; compared with the documented rules; dispatch_maps compared with the full Cartesian product; operator == method by identity or z3.",
        note="PARTIAL: object x object lattice here (NumPy pairings through C03's lane); Awkward pairings are not reachable. The solver's role is value independence and operator equality." + COMMON_NOTE,
        design="DESIGN.md §4 C05",
    ),
    "C06": dict(
        text="Path-exhaustive symbolic execution of the real constructors over name sets (presence booleans for 19 names + 1 foreign, <= 5 true; <= 6 for vector.obj in thorough, two keyword orders): for each path z3 decides that accept/reject, dimension, flavor, coordinate classes and which supplied (symbolic) value is stored where equal the documented grammar; value kinds enumerated.",
        note="PARTIAL: vector.obj, the six object classes, vector.array (name logic + real NumPy construction) and awkward _check_names; ak.zip/vector.Array beyond _check_names are not reachable. The grammar encoding (props/c06.py::Spec) is trusted." + COMMON_NOTE,
        design="DESIGN.md §4 C06",
    ),
    "C08": dict(
        text="Bounded SMT checking across backends: the real SymPy backend's result expressions are evaluated on the z3-term scalars of the object-lane vector and z3 decides equality with the object backend's term on the regular domain (timelike, forward, off-axis).",
        note="Structural ==/!= of SymPy expressions are outside (not numeric statements). The structural SymPy-expression evaluator (props/c08.py::sym_eval) is trusted." + COMMON_NOTE,
        design="DESIGN.md §4 C08",
    ),
    "C09": dict(
        text="Bounded SMT checking of the boost laws through the public API (boosted vector in all 12 systems, boosters in rotating systems): Minkowski invariance of products, inverse, velocity addition, spelling equalities, dispatch on booster dimension, rest frame of boostCM_of(v).",
        note="|beta|<1, booster timelike with E>0, tau>=0." + COMMON_NOTE,
        design="DESIGN.md §4 C09",
    ),
    "C10": dict(
        text="Bounded SMT checking of the rotation laws through the public API in all systems: isometry, handedness (det=+1 on the basis), time pass-through, additivity and inverse, rotate_axis vs rotateX/Y/Z and axis length, quaternion vs rotate_axis, 12 Euler orders (both letter cases) vs products of axis rotations, rotate_nautical.",
        note="All angles (no range restriction); polynomial identities modulo cos^2+sin^2=1." + COMMON_NOTE,
        design="DESIGN.md §4 C10",
    ),
    "C11": dict(
        text="Bounded SMT checking of the vector-space, dot, cross, unit and norm-ufunc laws through operators and methods, same-system pairs and a covering set of mixed pairs, nested operations executed directly.",
        note="Negative scale factors only for t-stored vectors." + COMMON_NOTE,
        design="DESIGN.md §4 C11",
    ),
    "C12": dict(
        text="Bounded SMT checking of ==, !=, equal, not_equal, isclose for all 184 system pairings in exact reals ('!= is not ==', symmetry, == implies isclose, reflexivity, tolerance monotonicity, same-system characterisations) and in bit-exact IEEE Float64 (QF_FP) for the same-system ==/!= kernels; NumPy lane: ==, !=, numpy.equal/not_equal/isclose/allclose of the real VectorNumpy classes (arrays of z3-term scalars) against the object-backend methods, element by element.",
        note="Tolerance monotonicity in IEEE arithmetic is not claimed (queries do not finish). numpy.allclose on one-element views (a reduction of several symbolic truth values is not a term). Awkward arrays are not reachable." + COMMON_NOTE,
        design="DESIGN.md §4 C12",
    ),
    "C13": dict(
        text="Bounded SMT checking of every range / sign / classification clause in every coordinate system: phi, deltaphi, theta, deltaangle ranges; non-negativity; signs of costheta/cottheta; t from tau (defined for all finite tau); tau sign; beta/gamma; causal predicates disjoint and ordered; directional predicates vs cosine thresholds; definedness obligations for the never-NaN clauses; the same ranges for the coordinates stored by vector-valued operations (scale, negation, rotateZ, add, subtract, unit, polar conversion). IEEE guard lane: deltaangle, theta, rho, rho2, mag, mag2, t, t2, tau executed on an order abstraction of IEEE-754 arithmetic (fresh variable per operation, only facts valid for every correctly rounded result): z3 decides that every sqrt/arccos argument is in the domain and the result in range and not NaN under every rounding; abstract counterexamples are replayed on the float64 backend (directed operands a, -a, 3a, -a/7).",
        note="Exact reals for the clause families; the guard lane covers float64 rounding up to overflow, underflow of squares and zero denominators; float values of phi/deltaphi exactly at +-pi are outside." + COMMON_NOTE,
        design="DESIGN.md §4 C13",
    ),
    "C14": dict(
        text="Bounded SMT checking + object identity over the synonym table x every coordinate system: momentum getters return the geometric getter's object or a z3-equal term, setters through synonyms give the same post-state, construction and to_* synonyms agree, Et/Mt spellings identical, flavor never changes a number.",
        note="PARTIAL: object backend; NumPy field access through C03's lane; Awkward fields not reachable." + COMMON_NOTE,
        design="DESIGN.md §4 C14",
    ),
    "C15": dict(
        text="One inductive step from an arbitrary symbolic pre-state (every class, system, flavor): each setter name and each in-place operator; post-conditions decided by object identity and z3; induction covers histories of any length.",
        note="Object backend; the SymPy backend's copy of the setters is not claimed." + COMMON_NOTE,
        design="DESIGN.md §4 C15",
    ),
    "C16": dict(
        text="Frame condition inside single-path symbolic runs of every public operation, conversion, comparison (call shapes of C02, C04, C05, C09-C13, including raising calls): class, coordinate containers and identity of every stored coordinate object of every operand unchanged; value-independent because the run is single-path.",
        note="PARTIAL: object backend and NumPy lane (C03/C17 carry the same frame goal for arrays); float64 buffer aliasing and Awkward are not reachable. No SMT query is needed for identity; the solver-based part is the symbolic execution itself." + COMMON_NOTE,
        design="DESIGN.md §4 C16",
    ),
    "C17": dict(
        text="Bounded SMT checking of numpy.sum/.sum() of the NumPy backend on structured arrays of z3-term scalars: every coordinate system/dimension/flavor, shapes (1,),(3,),(2,2),(2,3), axes None/0/1/-1, keepdims: result components equal the sums of the elements' Cartesian components (z3), shape/fields/flavor structural; empty arrays concretely (no values involved).",
        note="PARTIAL: count_nonzero and all ak.* reducers are not reachable." + COMMON_NOTE,
        design="DESIGN.md §4 C17",
    ),
}

NOT_APPLICABLE = {
    "C07": "numba: the property is about LLVM-compiled machine code and numba's typing/lowering extension API; no symbolic engine for native code is installed and CrossHair realises at the compiled boundary (DESIGN.md §5)",
    "C18": "Awkward layouts, option masks and field sets live in C++/NumPy buffers manipulated by ak.zip/ak.transform; no symbolic value can flow through an Awkward array, so there is no term to hand to a solver (DESIGN.md §5)",
    "C19": "NumPy indexing/slicing/views/pickling run in NumPy C code and the property has no value-dependent content: in this family it would be enumeration of concrete runs, not a solver verdict (DESIGN.md §5)",
    "C20": "process-global C state (numpy.errstate, warnings filters, awkward.behavior) and CPython thread schedules are not computed by code that can be executed symbolically (DESIGN.md §5)",
}
PENDING = "not claimed"
ALL = [f"C{n:02d}" for n in range(1, 21)]


def main():
    checks = []
    for pid, c in CLAIMS.items():
        checks.append(
            {
                "property_id": pid,
                "quick_cmd": f"./check {pid} --tier quick",
                "thorough_cmd": f"./check {pid} --tier thorough",
                "evidence_file": f"/verif/evidence/{pid}.json",
                "replay_cmd_template": f"./check {pid} --replay {{path}}",
                "engine": "symx",
                "level_claimed": {"category": "other", "text": c["text"], "design_ref": c["design"]},
                "level_note": c["note"],
                "technique": c.get("technique", TECH),
            }
        )
    na = []
    for pid in ALL:
        if pid in CLAIMS:
            continue
        na.append({"property_id": pid, "reason": NOT_APPLICABLE.get(pid, PENDING)})
    m = {
        "version": 1,
        "setup_cmd": "./setup.sh",
        "hooks": {
            "guard": "SCIKIT_HEP_VECTOR_VERIF",
            "enable": "no hooks are needed: the checks subclass the real backend classes in-process and replace only the `lib` class attribute (DESIGN.md §2.5)",
            "baseline_off_cmd": "cd /repo && /venv/bin/python -m pytest -ra -q -p no:cacheprovider --timeout=900 --continue-on-collection-errors",
            "source_commits": [],
            "add_only": True,
        },
        "engines": [
            {
                "name": "symx",
                "path": "/verif/symx",
                "serves_properties": sorted(CLAIMS),
                "kind_free_text": "symbolic executor for the real vector code (z3 term scalars, axiomatised transcendental functions, CEGAR over the fact set) + concrete replay lane (mpmath / float64)",
            }
        ],
        "checks": checks,
        "not_applicable": na,
        "notes": "See DESIGN.md. Exit codes of ./check: 0 property held on everything explored, 1 violation (VIOLATION line + replay file), 2 inconclusive (never on the unchanged tree), 3 harness error.",
    }
    with open(os.path.join(HERE, "MANIFEST.json"), "w") as f:
        json.dump(m, f, indent=1)
    try:
        import jsonschema

        jsonschema.validate(m, json.load(open("/root/.vp/MANIFEST.schema.json")))
        print("MANIFEST.json valid;", len(checks), "checks,", len(na), "not applicable")
    except ImportError:
        print("written (jsonschema not available)")


if __name__ == "__main__":
    main()
