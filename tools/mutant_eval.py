#!/usr/bin/env python3
"""Validate seeded changes and run checks against them in scratch worktrees (never in /repo).

usage:
  mutant_eval.py validate WT DIR...        # demo passes on clean, fails with patch; full test-suite same as baseline
  mutant_eval.py check WT DIR -- PID [check args...]   # run ./check PID with the patch applied (PYTHONPATH=WT/src)
WT is a scratch git worktree of /repo's HEAD containing src/vector/_version.py."""
import json, os, subprocess, sys, time

BASE_FAILED = "/tmp/mutwt_base_failed.txt"
PY = "/venv/bin/python"


def run(cmd, cwd=None, env=None, timeout=3600):
    p = subprocess.run(cmd, cwd=cwd, env=env, capture_output=True, text=True, timeout=timeout)
    return p.returncode, p.stdout + p.stderr


def env_for(wt):
    e = dict(os.environ)
    e["PYTHONPATH"] = f"{wt}/src"
    e["PYTHONDONTWRITEBYTECODE"] = "1"
    return e


def clean(wt):
    run(["git", "-C", wt, "checkout", "--", "."])
    rc, out = run(["git", "-C", wt, "status", "--porcelain"])
    assert out.strip() == "", out


def validate(wt, d):
    res = {"dir": d}
    clean(wt)
    rc0, out0 = run([PY, os.path.join(d, "demo.py")], cwd="/tmp", env=env_for(wt), timeout=900)
    res["demo_clean_exit"] = rc0
    rc, out = run(["git", "-C", wt, "apply", os.path.join(d, "patch.diff")])
    res["apply"] = rc
    if rc != 0:
        res["apply_err"] = out[-300:]
        clean(wt)
        return res
    rc, out = run(["git", "-C", wt, "diff", "--stat"])
    res["files"] = [l.split("|")[0].strip() for l in out.splitlines() if "|" in l]
    rc1, out1 = run([PY, os.path.join(d, "demo.py")], cwd="/tmp", env=env_for(wt), timeout=900)
    res["demo_patched_exit"] = rc1
    res["demo_patched_tail"] = out1[-400:]
    t0 = time.time()
    rc, out = run([PY, "-m", "pytest", "-q", "-p", "no:cacheprovider", "--timeout=900", "tests"], cwd=wt, env=env_for(wt), timeout=3600)
    failed = sorted(l.split(" - ")[0] for l in out.splitlines() if l.startswith("FAILED"))
    base = sorted(l.split(" - ")[0].strip() for l in open(BASE_FAILED))
    res["tests_summary"] = out.strip().splitlines()[-1] if out.strip() else ""
    res["tests_same_as_baseline"] = failed == base
    res["tests_new_failures"] = [f for f in failed if f not in base][:10]
    res["tests_s"] = round(time.time() - t0)
    clean(wt)
    res["valid"] = rc0 == 0 and rc1 == 1 and res["tests_same_as_baseline"]
    return res


def check(wt, d, pid, args):
    clean(wt)
    rc, out = run(["git", "-C", wt, "apply", os.path.join(d, "patch.diff")])
    assert rc == 0, out
    e = env_for(wt)
    t0 = time.time()
    try:
        rc, out = run(["/verif/check", pid] + args, cwd="/verif", env=e, timeout=7200)
    finally:
        clean(wt)
    viol = [l for l in out.splitlines() if l.startswith("VIOLATION")]
    return {"dir": d, "pid": pid, "exit": rc, "violations": len(viol), "first": (viol[:1] + [l for l in out.splitlines() if l.strip().startswith("family=")][:1]), "summary": out.strip().splitlines()[-1][:300] if out.strip() else "", "s": round(time.time() - t0)}


if __name__ == "__main__":
    mode, wt = sys.argv[1], sys.argv[2]
    if mode == "validate":
        for d in sys.argv[3:]:
            r = validate(wt, d)
            print(json.dumps(r), flush=True)
    else:
        i = sys.argv.index("--")
        dirs = sys.argv[3:i]
        pid, args = sys.argv[i + 1], sys.argv[i + 2 :]
        for d in dirs:
            print(json.dumps(check(wt, d, pid, args)), flush=True)
