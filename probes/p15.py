import z3, numpy, time
import eng2 as eng, symobj2
from symobj2 import *
import vector
from vector.backends import numpy as vn
vn._is_type_safe = lambda a: True   # stub: dtype guard
class ArrLib:
    """numpy-like lib mapping the scalar symbolic lib over object arrays"""
    inf = float("inf"); nan = float("nan")
    @property
    def pi(self): return LIB.pi
    def __getattr__(self, name):
        f = getattr(LIB, name)
        def g(*args, **kw):
            if any(isinstance(a, numpy.ndarray) for a in args):
                return numpy.frompyfunc(lambda *xs: f(*xs, **kw), len(args), 1)(*args)
            return f(*args, **kw)
        return g
ALIB = ArrLib()
for c in (SV2,SM2,SV3,SM3,SV4,SM4): c.lib = ALIB
def mkn(base, name): return type(name, (base,), {"lib": ALIB})
NV2=mkn(vn.VectorNumpy2D,"NV2"); NM2=mkn(vn.MomentumNumpy2D,"NM2")
NV3=mkn(vn.VectorNumpy3D,"NV3"); NM3=mkn(vn.MomentumNumpy3D,"NM3")
NV4=mkn(vn.VectorNumpy4D,"NV4"); NM4=mkn(vn.MomentumNumpy4D,"NM4")
for g, m in ((NV2, NM2), (NV3, NM3), (NV4, NM4)):
    for c, (p2, p3, p4) in ((g, (NV2, NV3, NV4)), (m, (NM2, NM3, NM4))):
        c.ProjectionClass2D, c.ProjectionClass3D, c.ProjectionClass4D = p2, p3, p4
        c.GenericClass, c.MomentumClass = g, m
NV2.ObjectClass=SV2; NM2.ObjectClass=SM2; NV3.ObjectClass=SV3; NM3.ObjectClass=SM3; NV4.ObjectClass=SV4; NM4.ObjectClass=SM4
C=eng.new()
def arr(cls, names, tag, n=2):
    a = numpy.empty((n,), dtype=[(nm, object) for nm in names])
    for i in range(n):
        for nm in names: a[nm][i] = R(f"{nm}{tag}{i}")
    return a.view(cls)
a = arr(NV3, ["rho","phi","eta"], "a")
b = arr(NM3, ["x","y","z"], "b")
print(type(a).__name__, a.dtype.names)
s = a + b
print(type(s).__name__, s.dtype, s.shape)
print(s["x"][0])
print(a.dot(b)[1])
o = SV3(azimuthal=vo.AzimuthalObjectXY(R("ox"),R("oy")), longitudinal=vo.LongitudinalObjectZ(R("oz")))
t = a.cross(o); print(type(t).__name__, t.dtype.names, t["z"][0])
print(type(a[0]).__name__, a[0])
u = a.to_xyz(); print(type(u).__name__, u.dtype.names)
print(a.deltaR(b)[0])
print(numpy.sum(a, axis=0))
print(a.unit().dtype.names, a.rotateZ(R("ang"))["phi"][0])
print((a*R("k"))["rho"][0])
print(a.isclose(b)[0])
