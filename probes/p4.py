import z3, time
R=z3.Real
rho1,rho2,c1,s1,c2,s2,r,cA,sA = z3.Reals("rho1 rho2 c1 s1 c2 s2 r cA sA")
w = rho1 + rho2*(c2*c1+s2*s1)
v = rho2*(s2*c1 - c2*s1)
E = [c1*c1+s1*s1==1, c2*c2+s2*s2==1, r*r == w*w+v*v, r*cA==w, r*sA==v, cA*cA+sA*sA==1, r>0, rho1>0, rho2>0]
goal = r*(c1*cA - s1*sA) == rho1*c1+rho2*c2
def run(mk, name):
    s = mk()
    s.set("timeout", 60000)
    for e in E: s.add(e)
    s.add(z3.Not(goal))
    t=time.time(); res=s.check(); print(name, res, round(time.time()-t,2), flush=True)
run(lambda: z3.Solver(), "default")
run(lambda: z3.Tactic("qfnra-nlsat").solver(), "nlsat")
run(lambda: z3.SolverFor("QF_NRA"), "QF_NRA")
def smt():
    s = z3.Tactic("smt").solver(); return s
run(smt, "smt")
def smt6():
    s = z3.Then(z3.Tactic("simplify"), z3.Tactic("smt")).solver()
    return s
run(smt6, "simplify+smt")
s=z3.Solver()
for e in E: s.add(e)
s.add(z3.Not(goal))
open("min.smt2","w").write("(set-logic QF_NRA)\n"+s.to_smt2())
