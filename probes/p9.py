import vector, itertools, math
v=vector.obj(x=0.3,y=-1.1,z=0.7)
a=dict(phi=0.4,theta=1.3,psi=-0.8)
def rot(ax,ang,v): return getattr(v,"rotate"+ax.upper())(ang)
for order in ["xzx","xyx","yxy","yzy","zyz","zxz","xzy","xyz","yxz","yzx","zyx","zxy"]:
    got=v.rotate_euler(a["phi"],a["theta"],a["psi"],order)
    found=[]
    for perm in itertools.permutations(["phi","theta","psi"]):
      for axes in itertools.permutations(range(3)):
        for signs in itertools.product([1,-1],repeat=3):
            w=v
            for k in range(3):
                w=rot(order[axes[k]], signs[k]*a[perm[k]], w)
            if abs(w.x-got.x)+abs(w.y-got.y)+abs(w.z-got.z)<1e-12:
                found.append((perm,axes,signs))
    print(order, found)
