import z3, time, sys, subprocess
import eng
from eng import Sym, LIB
from vector._compute.planar import add as padd, x as px_, y as py_
def R(n): return Sym(z3.Real(n))
C = eng.new()
rho1, phi1, rho2, phi2 = R("rho1"), R("phi1"), R("rho2"), R("phi2")
dom = [rho1.t > 0, rho2.t > 0]
R_, P_ = padd.rhophi_rhophi(LIB, rho1, phi1, rho2, phi2)
xr = px_.rhophi(LIB, R_, P_); yr = py_.rhophi(LIB, R_, P_)
xe, ye = padd.xy_xy(LIB, px_.rhophi(LIB, rho1, phi1), py_.rhophi(LIB, rho1, phi1), px_.rhophi(LIB, rho2, phi2), py_.rhophi(LIB, rho2, phi2))
dom.append(z3.Or(xe.t != 0, ye.t != 0))
eng.link_fractions()
print("xr =", z3.simplify(xr.t))
print("xe =", z3.simplify(xe.t))
for c in C.cons: print("  ax:", c)
for c in C.defd: print("  def:", c)
def dump(goal, fn):
    s = z3.Solver()
    for c in C.cons + C.defd + dom: s.add(c)
    s.add(z3.Not(goal))
    open(fn, "w").write("(set-logic QF_NRA)\n" + s.to_smt2())
dump(xr.t == xe.t, "add_x.smt2")
dump(yr.t == ye.t, "add_y.smt2")
