"""Probe engine v2: symbolic scalars are formal fractions N/D of z3 real polynomials over
generators; transcendental functions introduce generators with sound defining relations;
ITEs pruned by solver under the asserted domain; sqrt generators merged by solver."""
import z3, fractions, itertools, time, numbers

class NotSym(TypeError): pass
def _ni(f):
    def g(self, o):
        try: return f(self, o)
        except NotSym: return NotImplemented
    return g

class Ctx:
    def __init__(self):
        self.rel = []       # defining relations (equalities / sign facts), always sound
        self.rng = []       # range facts (angles), sound
        self.quad = []      # quadrant implications, sound
        self.defd = []      # definedness side-conditions (regular domain)
        self.dom = []       # domain assumptions asserted by the harness before execution
        self.cache = {}
        self.keep = []
        self.n = 0
        self.pi = z3.Real("pi")
        self.rel += [self.pi > z3.RealVal("3.14159"), self.pi < z3.RealVal("3.1416")]
        self.angles = {}
        self.exps = {}
        self.sqrts = []     # (r, N, D)
        self.stats = {"prune_q": 0, "merge_q": 0}
        self.fast = None
    def fresh(self, p):
        self.n += 1
        return z3.Real(f"{p}!{self.n}")
    def base_solver(self, timeout=2000):
        s = z3.Solver(); s.set("timeout", timeout)
        for c in self.rel + self.dom + self.defd: s.add(c)
        return s
    def valid(self, f, timeout=2000):
        s = self.base_solver(timeout); s.add(z3.Not(f))
        return str(s.check()) == "unsat"

CTX = None
def new():
    global CTX
    CTX = Ctx(); return CTX

ONE = None
def rv(v): return z3.RealVal(v)

class SymBool:
    def __init__(self, t): self.t = t
    def __and__(self, o): return SymBool(z3.And(self.t, lb(o)))
    __rand__ = __and__
    def __or__(self, o): return SymBool(z3.Or(self.t, lb(o)))
    __ror__ = __or__
    def __invert__(self): return SymBool(z3.Not(self.t))
    def __bool__(self): raise RuntimeError("branch on symbolic bool")
    def __mul__(self, o):
        if isinstance(o, float) and (o != o or abs(o) == float("inf")): return Singular()
        return Sym(z3.If(self.t, rv(1), rv(0))) * o
    __rmul__ = __mul__

class Singular:
    """inf/nan default values; only meaningful as nan_to_num defaults (ignored in regular domain)"""
    def _s(self, *a): return self
    __add__ = __radd__ = __sub__ = __rsub__ = __mul__ = __rmul__ = __truediv__ = __rtruediv__ = __neg__ = _s

def lb(o):
    if isinstance(o, SymBool): return o.t
    if isinstance(o, bool): return z3.BoolVal(o)
    raise TypeError(type(o))

def S(v):
    if isinstance(v, Sym): return v
    if isinstance(v, SymBool): return Sym(z3.If(v.t, rv(1), rv(0)))
    if isinstance(v, bool): return Sym(rv(int(v)))
    if isinstance(v, int): return Sym(rv(v))
    if isinstance(v, float):
        if v != v or abs(v) == float("inf"): raise ValueError("singular constant in arithmetic")
        fr = fractions.Fraction(v)
        return Sym(rv(fr.numerator), rv(fr.denominator))
    if z3.is_expr(v): return Sym(v)
    raise NotSym(type(v))

def simp(t): return z3.simplify(t, som=True)

class Sym:
    def __init__(self, n, d=None):
        self.n = n; self.d = d if d is not None else rv(1)
    @property
    def isint(self): return z3.is_rational_value(self.d) and self.d.numerator_as_long() == self.d.denominator_as_long()
    def term(self):
        if self.isint: return self.n
        return self.n / self.d
    def __add__(self, o):
        o = S(o)
        if z3.eq(self.d, o.d): return Sym(self.n + o.n, self.d)
        return Sym(self.n * o.d + o.n * self.d, self.d * o.d)
    __radd__ = __add__
    def __neg__(self): return Sym(-self.n, self.d)
    def __pos__(self): return self
    def __sub__(self, o): return self + (-S(o))
    def __rsub__(self, o): return S(o) + (-self)
    def __mul__(self, o):
        if isinstance(o, Singular): return o
        o = S(o); return Sym(self.n * o.n, self.d * o.d)
    __rmul__ = __mul__
    def __truediv__(self, o):
        o = S(o)
        nz = simp(o.n)
        if not (z3.is_rational_value(nz) and nz.numerator_as_long() != 0):
            CTX.defd.append(o.n != 0)
        return Sym(self.n * o.d, self.d * o.n)
    def __rtruediv__(self, o): return S(o) / self
    def __pow__(self, o):
        if isinstance(o, int):
            if o < 0: return 1 / (self ** (-o))
            r = Sym(rv(1))
            for _ in range(o): r = r * self
            return r
        if o == 0.5: return LIB.sqrt(self)
        if o == -0.5: return 1 / LIB.sqrt(self)
        if o == 0.25: return LIB.sqrt(LIB.sqrt(self))
        raise NotImplementedError(o)
    def __mod__(self, o): return LIB.mod(self, o)
    def _cmp(self, o, op):
        o = S(o)
        # a/b op c/d  with b,d != 0 : compare a*b*d*d  op  c*d*b*b
        if self.isint and o.isint: return SymBool(op(self.n, o.n))
        return SymBool(op(self.n * self.d * o.d * o.d, o.n * o.d * self.d * self.d))
    def __eq__(self, o): o = S(o); return SymBool(self.n * o.d == o.n * self.d)
    def __ne__(self, o): o = S(o); return SymBool(self.n * o.d != o.n * self.d)
    def __lt__(self, o): return self._cmp(o, lambda a, b: a < b)
    def __le__(self, o): return self._cmp(o, lambda a, b: a <= b)
    def __gt__(self, o): return self._cmp(o, lambda a, b: a > b)
    def __ge__(self, o): return self._cmp(o, lambda a, b: a >= b)
    def __hash__(self): return id(self)
    def __bool__(self): raise RuntimeError("branch on symbolic value")
    def __repr__(self): return f"Sym({simp(self.n)} / {simp(self.d)})"
numbers.Real.register(Sym)
for _m in ('__add__','__radd__','__sub__','__rsub__','__mul__','__rmul__','__truediv__','__rtruediv__','__eq__','__ne__','__lt__','__le__','__gt__','__ge__'):
    setattr(Sym, _m, _ni(getattr(Sym, _m)))

def ite(cond, a, b):
    """solver-pruned if-then-else on Sym values"""
    CTX.stats["prune_q"] += 1
    if CTX.valid(cond): return a
    if CTX.valid(z3.Not(cond)): return b
    a, b = S(a), S(b)
    if z3.eq(a.d, b.d): return Sym(z3.If(cond, a.n, b.n), a.d)
    return Sym(z3.If(cond, a.n * b.d, b.n * a.d), a.d * b.d)

# ---------- angles ----------
def _q(v): return fractions.Fraction(v.numerator_as_long(), v.denominator_as_long())

def _lin(t):
    k = t.decl().kind() if z3.is_app(t) else None
    if z3.is_rational_value(t):
        if _q(t) == 0: return {}, fractions.Fraction(0)
        raise ValueError("numeric constant in angle")
    if z3.eq(t, CTX.pi): return {}, fractions.Fraction(1)
    if k == z3.Z3_OP_ADD:
        atoms, pc = {}, fractions.Fraction(0)
        for ch in t.children():
            a, p = _lin(ch); pc += p
            for i, (at, c) in a.items():
                atoms[i] = (at, atoms[i][1] + c) if i in atoms else (at, c)
        return {i: v for i, v in atoms.items() if v[1] != 0}, pc
    if k == z3.Z3_OP_SUB:
        ch = t.children(); a, pc = _lin(ch[0]); a = dict(a)
        for c2 in ch[1:]:
            b, p = _lin(c2); pc -= p
            for i, (at, c) in b.items():
                a[i] = (at, a[i][1] - c) if i in a else (at, -c)
        return {i: v for i, v in a.items() if v[1] != 0}, pc
    if k == z3.Z3_OP_UMINUS:
        a, pc = _lin(t.children()[0]); return {i: (at, -c) for i, (at, c) in a.items()}, -pc
    if k == z3.Z3_OP_MUL:
        ch = t.children()
        consts = [c for c in ch if z3.is_rational_value(c)]
        rest = [c for c in ch if not z3.is_rational_value(c)]
        if len(rest) == 1:
            f = fractions.Fraction(1)
            for c in consts: f *= _q(c)
            a, pc = _lin(rest[0]); return {i: (at, c * f) for i, (at, c) in a.items()}, pc * f
    if k == z3.Z3_OP_DIV:
        a0, b0 = t.children()
        if z3.is_rational_value(b0):
            f = 1 / _q(b0); a, pc = _lin(a0); return {i: (at, c * f) for i, (at, c) in a.items()}, pc * f
    return {t.get_id(): (t, fractions.Fraction(1))}, fractions.Fraction(0)

def quadrant(a, c, s):
    pi = CTX.pi
    c, s = S(c), S(s)
    def pos(v): return (v > 0).t
    def neg(v): return (v < 0).t
    CTX.quad += [
        z3.Implies(z3.And(a > 0, a < pi), pos(s)), z3.Implies(z3.And(a > -pi, a < 0), neg(s)),
        z3.Implies(z3.And(a > -pi / 2, a < pi / 2), pos(c)),
        z3.Implies(z3.And(a > pi / 2, a < 3 * pi / 2), neg(c)), z3.Implies(z3.And(a > -3 * pi / 2, a < -pi / 2), neg(c)),
        z3.Implies(a == 0, z3.And((c == 1).t, (s == 0).t)), z3.Implies(z3.Or(a == pi, a == -pi), z3.And((c == -1).t, (s == 0).t)),
        z3.Implies(a == pi / 2, z3.And((c == 0).t, (s == 1).t)), z3.Implies(a == -pi / 2, z3.And((c == 0).t, (s == -1).t)),
    ]

def cs_of_atom(at, den):
    key = (at.get_id(), den)
    if key in CTX.angles: return CTX.angles[key][1:]
    c, s = CTX.fresh("c"), CTX.fresh("s")
    CTX.rel.append(c * c + s * s == 1)
    term = at / den if den != 1 else at
    CTX.angles[key] = (term, Sym(c), Sym(s)); CTX.keep.append(at)
    quadrant(term, c, s)
    # link with other denominators of same atom
    for (aid, d2), (_, c2, s2) in list(CTX.angles.items()):
        if aid == at.get_id() and d2 != den:
            if d2 % den == 0:
                cc, ss = mulang(c2, s2, d2 // den); CTX.rel += [(Sym(c) == cc).t, (Sym(s) == ss).t]
            elif den % d2 == 0:
                cc, ss = mulang(Sym(c), Sym(s), den // d2); CTX.rel += [(c2 == cc).t, (s2 == ss).t]
    return Sym(c), Sym(s)

def mulang(c, s, n):
    if n < 0:
        cc, ss = mulang(c, s, -n); return cc, -ss
    rc, rs = Sym(rv(1)), Sym(rv(0))
    for _ in range(n): rc, rs = rc * c - rs * s, rs * c + rc * s
    return rc, rs

def cossin(a):
    """a: Sym angle -> (cos, sin) Syms"""
    t = z3.simplify(a.term(), som=False); CTX.keep.append(t)
    key = ("cs", t.get_id())
    if key in CTX.cache: return CTX.cache[key]
    atoms, pc = _lin(t)
    rc, rs = Sym(rv(1)), Sym(rv(0))
    for i, (at, coef) in atoms.items():
        c, s = cs_of_atom(at, coef.denominator)
        cc, ss = mulang(c, s, coef.numerator)
        rc, rs = rc * cc - rs * ss, rs * cc + rc * ss
    q = pc * 2
    if q.denominator != 1: raise ValueError("pi coefficient not a multiple of 1/2")
    for _ in range(int(q) % 4): rc, rs = -rs, rc
    rc, rs = Sym(simp(rc.n), simp(rc.d)), Sym(simp(rs.n), simp(rs.d))
    CTX.cache[key] = (rc, rs)
    return rc, rs

class Lib:
    inf = float("inf"); nan = float("nan")
    @property
    def pi(self): return Sym(CTX.pi)
    def sqrt(self, a):
        a = S(a); N, D = simp(a.n), simp(a.d)
        # perfect-square / merge with existing generators by solver
        for (r, N2, D2) in CTX.sqrts:
            CTX.stats["merge_q"] += 1
            if (z3.eq(N, N2) and z3.eq(D, D2)) or CTX.valid(N * D2 == N2 * D):
                return Sym(r)
        r = CTX.fresh("r")
        CTX.sqrts.append((r, N, D)); CTX.keep += [N, D]
        CTX.defd.append((a >= 0).t)
        CTX.rel += [r >= 0, r * r * D == N]
        return Sym(r)
    def cos(self, a): return cossin(S(a))[0]
    def sin(self, a): return cossin(S(a))[1]
    def tan(self, a):
        c, s = cossin(S(a)); return s / c
    def _angle(self, name):
        A = CTX.fresh(name); c, s = cs_of_atom(A, 1); return A, c, s
    def arctan2(self, y, x):
        y, x = S(y), S(x)
        key = ("atan2", simp(y.n * x.d).get_id(), simp(x.n * y.d).get_id()); CTX.keep += [simp(y.n * x.d), simp(x.n * y.d)]
        if key in CTX.cache: return CTX.cache[key]
        A, c, s = self._angle("atan2")
        r = self.sqrt(x * x + y * y)
        CTX.rng += [A > -CTX.pi, A <= CTX.pi]
        CTX.rel += [(r * c == x).t, (r * s == y).t]
        CTX.defd.append(z3.Or((x != 0).t, (y != 0).t))
        CTX.cache[key] = Sym(A); return Sym(A)
    def arctan(self, u):
        u = S(u); A, c, s = self._angle("atan")
        CTX.rng += [A > -CTX.pi / 2, A < CTX.pi / 2, (A > 0) == (u > 0).t, (A == 0) == (u == 0).t]; CTX.rel += [(c > 0).t, (s == u * c).t]
        return Sym(A)
    def arccos(self, u):
        u = S(u); A, c, s = self._angle("acos")
        CTX.rng += [A >= 0, A <= CTX.pi]; CTX.rel += [(s >= 0).t, (c == u).t]
        CTX.defd += [(u >= -1).t, (u <= 1).t]
        return Sym(A)
    def exp(self, a):
        a = S(a); t = z3.simplify(a.term()); CTX.keep.append(t)
        if t.get_id() in CTX.exps: return Sym(CTX.exps[t.get_id()][1])
        nt = z3.simplify(-t); CTX.keep.append(nt)
        if nt.get_id() in CTX.exps:
            E = CTX.exps[nt.get_id()][1]
            return 1 / Sym(E)
        E = CTX.fresh("E"); CTX.exps[t.get_id()] = (t, E)
        CTX.rel += [E > 0]; CTX.rng += [(E > 1) == (t > 0), (E == 1) == (t == 0)]
        return Sym(E)
    def log(self, u):
        u = S(u); L = CTX.fresh("L"); CTX.defd.append((u > 0).t)
        E = self.exp(Sym(L)); CTX.rel.append((E == u).t)
        return Sym(L)
    def sinh(self, a): E = self.exp(a); return (E - 1 / E) / 2
    def cosh(self, a): E = self.exp(a); return (E + 1 / E) / 2
    def arcsinh(self, w):
        w = S(w); A = CTX.fresh("asinh"); CTX.rel.append((self.sinh(Sym(A)) == w).t); return Sym(A)
    def mod(self, a, m):
        a, m = S(a), S(m); at, mt = a.term(), m.term()
        r = CTX.fresh("mod")
        CTX.rng += [z3.Implies(mt > 0, z3.And(r >= 0, r < mt)),
                    z3.Implies(z3.And(mt > 0, at >= 0, at < mt), r == at),
                    z3.Implies(z3.And(mt > 0, at >= mt, at < 2 * mt), r == at - mt),
                    z3.Implies(z3.And(mt > 0, at >= -mt, at < 0), r == at + mt)]
        if z3.eq(z3.simplify(mt), z3.simplify(2 * CTX.pi)):
            ca, sa = cossin(a)
            CTX.angles[(r.get_id(), 1)] = (r, ca, sa); CTX.keep.append(r)
        return Sym(r)
    def absolute(self, a): a = S(a); return ite((a >= 0).t, a, -a)
    def sign(self, a): a = S(a); return ite((a > 0).t, Sym(rv(1)), ite((a < 0).t, Sym(rv(-1)), Sym(rv(0))))
    def copysign(self, a, b): aa = self.absolute(a); return ite((S(b) >= 0).t, aa, -aa)
    def maximum(self, a, b): a, b = S(a), S(b); return ite((a >= b).t, a, b)
    def minimum(self, a, b): a, b = S(a), S(b); return ite((a <= b).t, a, b)
    def nan_to_num(self, a, nan=0.0, posinf=None, neginf=None):
        return a if isinstance(a, Singular) else S(a)
    def isclose(self, a, b, rtol=1e-5, atol=1e-8, equal_nan=False):
        return self.absolute(S(a) - b) <= atol + rtol * self.absolute(b)
LIB = Lib()

def finalize():
    es = list(CTX.exps.values())
    for (a, Ea), (b, Eb) in itertools.combinations(es, 2):
        CTX.rng += [(Ea == Eb) == (a == b), (Ea < Eb) == (a < b)]

def angle_injectivity(a, b):
    a, b = S(a), S(b)
    ca, sa = cossin(a); cb, sb = cossin(b); pi = CTX.pi; at, bt = a.term(), b.term()
    CTX.rng.append(z3.Implies(z3.And(at > -pi, at <= pi, bt > -pi, bt <= pi, (ca == cb).t, (sa == sb).t), at == bt))
    CTX.rng.append(z3.Implies(z3.And(at >= 0, at <= pi, bt >= 0, bt <= pi, (ca == cb).t), at == bt))

def check(goal, tier, timeout):
    s = z3.Solver(); s.set("timeout", timeout)
    cons = CTX.rel + CTX.dom + CTX.defd
    if tier >= 1: cons = cons + CTX.rng
    if tier >= 2: cons = cons + CTX.quad
    for c in cons: s.add(c)
    s.add(z3.Not(goal))
    t0 = time.time(); r = str(s.check()); return r, time.time() - t0, s

def prove(goal, timeout=20000):
    """tiered: equational core first, then ranges, then quadrant axioms"""
    finalize()
    tot = 0
    for tier in (0, 1, 2):
        r, dt, s = check(goal, tier, timeout); tot += dt
        if r == "unsat": return ("unsat", tot, tier)
    return (r, tot, 2)

def prove_eq(got, exp, timeout=20000):
    """got, exp Syms; sqrt elimination when one side is a bare sqrt generator"""
    got, exp = S(got), S(exp)
    for a, b in ((got, exp), (exp, got)):
        if a.isint:
            n = simp(a.n)
            for (r, N, D) in CTX.sqrts:
                if z3.eq(n, r):
                    r1 = prove((b >= 0).t, timeout)
                    r2 = prove((b * b == Sym(N, D)).t, timeout)
                    return [r1, r2]
    return [prove((got == exp).t, timeout)]
