import z3, numpy, time, operator
import eng2 as eng, symobj2
from symobj2 import *
import vector
from vector.backends import numpy as vn
vn._is_type_safe = lambda a: True   # stub: dtype guard
class EV:
    """element-wise container of symbolic scalars (shape-preserving)"""
    def __init__(self, arr): self.a = arr            # object ndarray
    @staticmethod
    def lift(x, like): 
        return x.a if isinstance(x, EV) else numpy.full(like.shape, None, dtype=object).__class__ and _full(like.shape, x)
def _full(shape, x):
    out = numpy.empty(shape, dtype=object)
    for i in numpy.ndindex(shape): out[i] = x
    return out
def _bin(op):
    def f(self, other):
        b = other.a if isinstance(other, EV) else other
        return EV(numpy.frompyfunc(op, 2, 1)(self.a, b))
    def r(self, other):
        return EV(numpy.frompyfunc(lambda x, y: op(y, x), 2, 1)(self.a, other))
    return f, r
for name, op in (("add", operator.add), ("sub", operator.sub), ("mul", operator.mul), ("truediv", operator.truediv), ("mod", operator.mod),
                 ("and", operator.and_), ("or", operator.or_)):
    f, r = _bin(op); setattr(EV, f"__{name}__", f); setattr(EV, f"__r{name}__", r)
for name, op in (("eq", operator.eq), ("ne", operator.ne), ("lt", operator.lt), ("le", operator.le), ("gt", operator.gt), ("ge", operator.ge)):
    setattr(EV, f"__{name}__", _bin(op)[0])
EV.__neg__ = lambda self: EV(numpy.frompyfunc(operator.neg, 1, 1)(self.a))
EV.__pow__ = lambda self, p: EV(numpy.frompyfunc(lambda x: x ** p, 1, 1)(self.a))
EV.__invert__ = lambda self: EV(numpy.frompyfunc(operator.invert, 1, 1)(self.a))
EV.__hash__ = lambda self: id(self)
class ArrLib:
    inf = float("inf"); nan = float("nan")
    @property
    def pi(self): return LIB.pi
    def __getattr__(self, name):
        f = getattr(LIB, name)
        def g(*args, **kw):
            if any(isinstance(a, EV) for a in args):
                shape = next(a.a.shape for a in args if isinstance(a, EV))
                arrs = [a.a if isinstance(a, EV) else _full(shape, a) for a in args]
                kws = {k: (v.a if isinstance(v, EV) else _full(shape, v)) for k, v in kw.items()}
                keys = list(kws)
                fn = lambda *xs: f(*xs[:len(arrs)], **dict(zip(keys, xs[len(arrs):])))
                return EV(numpy.frompyfunc(fn, len(arrs) + len(keys), 1)(*arrs, *[kws[k] for k in keys]))
            return f(*args, **kw)
        return g
ALIB = ArrLib()
def wrapdf(self, func):
    def g(lib, *args):
        a2 = [EV(a) if isinstance(a, numpy.ndarray) and a.dtype == object else a for a in args]
        out = func(lib, *a2)
        conv = lambda o: o.a if isinstance(o, EV) else o
        return tuple(conv(o) for o in out) if isinstance(out, tuple) else conv(out)
    return g
for c in (SV2,SM2,SV3,SM3,SV4,SM4): c.lib = ALIB
def mkn(base, name): return type(name, (base,), {"lib": ALIB, "_wrap_dispatched_function": wrapdf})
NV2=mkn(vn.VectorNumpy2D,"NV2"); NM2=mkn(vn.MomentumNumpy2D,"NM2")
NV3=mkn(vn.VectorNumpy3D,"NV3"); NM3=mkn(vn.MomentumNumpy3D,"NM3")
NV4=mkn(vn.VectorNumpy4D,"NV4"); NM4=mkn(vn.MomentumNumpy4D,"NM4")
for g, m in ((NV2, NM2), (NV3, NM3), (NV4, NM4)):
    for c, (p2, p3, p4) in ((g, (NV2, NV3, NV4)), (m, (NM2, NM3, NM4))):
        c.ProjectionClass2D, c.ProjectionClass3D, c.ProjectionClass4D = p2, p3, p4
        c.GenericClass, c.MomentumClass = g, m
NV2.ObjectClass=SV2; NM2.ObjectClass=SM2; NV3.ObjectClass=SV3; NM3.ObjectClass=SM3; NV4.ObjectClass=SV4; NM4.ObjectClass=SM4
C=eng.new()
def arr(cls, names, tag, shape=(2,)):
    a = numpy.empty(shape, dtype=[(nm, object) for nm in names])
    for i in numpy.ndindex(shape):
        for nm in names: a[nm][i] = R(f"{nm}{tag}{''.join(map(str,i))}")
    return a.view(cls)
a = arr(NV3, ["rho","phi","eta"], "a"); b = arr(NM3, ["x","y","z"], "b")
print("deltaR", a.deltaR(b)[0])
print("equal", (a == b)[1]); print("ne", (a != b)[1])
print("isclose", a.isclose(b)[0])
print("is_parallel", a.is_parallel(b)[0])
o = SV3(azimuthal=vo.AzimuthalObjectXY(R("ox"),R("oy")), longitudinal=vo.LongitudinalObjectZ(R("oz")))
# object x numpy: handler must be numpy
r = o + a; print(type(r).__name__, r.dtype.names, r.shape)
# compare element 0 of numpy result with object-lane result
e0 = a[0]; ro = o + e0
print("elem eq:", eng.prove((S(r["x"][0]) == S(ro.x)).t)[:2], type(ro).__name__)
a2 = arr(NV4, ["x","y","theta","tau"], "c", (2,2))
s = numpy.sum(a2, axis=1); print(type(s).__name__, s.dtype.names, s.shape); print(s["t"][0])
s = numpy.sum(a2, axis=0, keepdims=True); print(s.shape)
try: print(numpy.count_nonzero(a2))
except Exception as ex: print("count_nonzero ->", type(ex).__name__, str(ex)[:60])
