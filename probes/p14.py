import z3, time, sys, itertools
import eng2 as eng, symobj2
from symobj2 import *
def attempt(goal, drop, timeout=10000):
    s=z3.Solver(); s.set("timeout",timeout)
    dropped=[r for i,(r,N,D) in enumerate(eng.CTX.sqrts) if i in drop]
    def mentions(c):
        txt=c.sexpr()
        return any(str(r) in txt for r in dropped)
    n=0
    for c in eng.CTX.rel+eng.CTX.dom+eng.CTX.defd:
        if mentions(c): n+=1; continue
        s.add(c)
    s.add(z3.Not(goal)); t0=time.time(); r=str(s.check()); return r, round(time.time()-t0,2), n
for s1,s2 in [(("xy","z","tau"),("xy","z","t")), (("rhophi","eta","tau"),("rhophi","eta","tau")), (("xy","theta","tau"),("xy","theta","t"))]:
    C=eng.new()
    v = make(s1, "1"); p = make(s2, "2")
    px, py, pz, pt = ref_cart(p)
    m2 = pt*pt - px*px - py*py - pz*pz
    C.dom += [(pt > 0).t, (m2 > 0).t]
    w = v.boost_p4(p)
    x, y, z, t = ref_cart(v)
    m = LIB.sqrt(m2)
    bp = (px*x + py*y + pz*z)
    k = (bp / (m * (pt + m)) + t / m)
    exp = [x + px * k, y + py * k, z + pz * k, (pt * t + bp) / m]
    got = ref_cart(w)
    print(s1,s2,"generators:", [(str(r)) for r,N,D in C.sqrts], len(C.rel))
    for i,(g,e) in enumerate(zip(got[:3],exp[:3])):
        goal=(g==e).t
        for k_ in range(len(C.sqrts)+1):
            done=False
            for drop in itertools.combinations(range(len(C.sqrts)), len(C.sqrts)-k_):
                r=attempt(goal,set(drop))
                print("  comp",i,"drop",drop,r,flush=True)
                if r[0]=="unsat": done=True; break
            if done: break
