import z3, time, sys
import eng, symobj
from symobj import *
s=("xy","theta","tau")
eng.new()
v, dom = make(s, "1"); b = R("beta"); dom += [b.t > -1, b.t < 1]
w = v.boostZ(beta=b)
x, y, z, t = ref_cart(v)
g = eng.lift(LIB.div(1, LIB.sqrt(1 - b * b)))
e = g * (t + b.t * z)
got = ref_cart(w)
r, U = eng.CTX.sqrts[got[3].get_id()]
goal = e*e == U
eng.link_fractions(); eng.exp_injectivity()
C=eng.CTX
print(len(C.cons), len(C.defd))
def run(mk,name, cons):
    sv=mk(); sv.set("timeout",60000)
    for c in cons: sv.add(c)
    sv.add(z3.Not(goal)); t0=time.time(); r=sv.check(); print(name, r, round(time.time()-t0,2), flush=True)
allc = C.cons+C.defd+dom
run(z3.Solver,"default", allc)
run(lambda: z3.Tactic("qfnra-nlsat").solver(),"nlsat", allc)
run(lambda: z3.Then("simplify","solve-eqs","qfnra-nlsat").solver(),"solve-eqs+nlsat", allc)
run(lambda: z3.Then("simplify","propagate-values","solve-eqs","simplify","qfnra-nlsat").solver(),"pv+solve-eqs+nlsat", allc)
# core: drop implications unless guard asserted
def is_impl(c): return z3.is_app(c) and c.decl().kind()==z3.Z3_OP_IMPLIES
core=[]
for c in C.cons:
    if is_impl(c):
        gd, body = c.children()
        if any(z3.eq(gd,d) for d in C.defd+dom): core.append(body)
        continue
    core.append(c)
corec = core+C.defd+dom
run(z3.Solver,"core default", corec)
run(lambda: z3.Tactic("qfnra-nlsat").solver(),"core nlsat", corec)
for c in corec: print("   ", z3.simplify(c))
print("goal", goal)
