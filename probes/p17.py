import z3, time, sys
RNE=z3.RNE()
for F,name in ((z3.FPSort(5,11),"F16"),(z3.FPSort(8,24),"F32")):
    def fp(n): return z3.FP(n,F)
    a,b,rt1,at1,rt2,at2=[fp(n) for n in "a b rt1 at1 rt2 at2".split()]
    def fin(*xs): return z3.And(*[z3.Not(z3.Or(z3.fpIsNaN(x), z3.fpIsInf(x))) for x in xs])
    def isclose(a,b,rt,at): return z3.fpLEQ(z3.fpAbs(z3.fpSub(RNE,a,b)), z3.fpAdd(RNE,at,z3.fpMul(RNE,rt,z3.fpAbs(b))))
    zero=z3.FPVal(0.0,F)
    for nm,cons in (("atol",[fin(a,b,rt1,at1,at2), z3.fpGEQ(rt1,zero), z3.fpGEQ(at1,zero), z3.fpGEQ(at2,at1), isclose(a,b,rt1,at1), z3.Not(isclose(a,b,rt1,at2))]),
                    ("rtol",[fin(a,b,rt1,rt2,at1), z3.fpGEQ(rt1,zero), z3.fpGEQ(at1,zero), z3.fpGEQ(rt2,rt1), isclose(a,b,rt1,at1), z3.Not(isclose(a,b,rt2,at1))])):
        s=z3.Solver(); s.set("timeout",120000)
        for c in cons: s.add(c)
        open(f"mono_{name}_{nm}.smt2","w").write("(set-logic QF_FP)\n"+s.to_smt2())
        t=time.time(); r=s.check(); print(name,nm,"z3",r,round(time.time()-t,2),flush=True)
