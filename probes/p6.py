import z3, time
import eng
from eng import Sym, LIB
from vector._compute.planar import add as padd, x as px_, y as py_
def R(n): return Sym(z3.Real(n))
def is_impl(c): return z3.is_app(c) and c.decl().kind()==z3.Z3_OP_IMPLIES
C = eng.new()
rho1, phi1, rho2, phi2 = R("rho1"), R("phi1"), R("rho2"), R("phi2")
R_, P_ = padd.rhophi_rhophi(LIB, rho1, phi1, rho2, phi2)
xr = px_.rhophi(LIB, R_, P_)
xe, ye = padd.xy_xy(LIB, px_.rhophi(LIB, rho1, phi1), py_.rhophi(LIB, rho1, phi1), px_.rhophi(LIB, rho2, phi2), py_.rhophi(LIB, rho2, phi2))
cons=[]
for c in C.cons:
    if is_impl(c):
        g, body = c.children()
        if any(z3.eq(g,d) for d in C.defd): cons.append(body)
        continue
    cons.append(c)
print("xr", z3.simplify(xr.t)); 
for c in cons: print(" C:", z3.simplify(c))
for d in C.defd: print(" D:", z3.simplify(d))
goal = xr.t==xe.t
import itertools
def chk(cs, extra, to=20000):
    s=z3.Solver(); s.set("timeout",to)
    for c in cs+extra: s.add(c)
    s.add(z3.Not(goal)); t=time.time(); r=s.check(); return str(r), round(time.time()-t,2)
dom=[rho1.t>0, rho2.t>0]
print("all", chk(cons, C.defd+dom))
print("no defd", chk(cons, dom))
print("eq only", chk([c for c in cons if z3.is_eq(c)], dom))
print("eq + r>0", chk([c for c in cons if z3.is_eq(c)] , dom))
# leave-one-out
base=cons+C.defd+dom
for i in range(len(base)):
    r=chk(base[:i]+base[i+1:], [], 10000)
    if r[0]!="unknown": print("drop", i, z3.simplify(base[i]), r)
