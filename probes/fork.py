"""Probe: path-exhaustive symbolic execution over name sets (forking lane)."""
import z3, time, itertools
import vector
from vector._methods import _coordinate_order
UNIVERSE = list(_coordinate_order) + ["charge"]
class Explorer:
    def __init__(self, bound):
        self.P = {n: z3.Bool("p_"+n) for n in UNIVERSE}
        self.s = z3.Solver()
        self.s.add(z3.PbLe([(p,1) for p in self.P.values()], bound))
        self.queries = 0
    def run(self, fn):
        """DFS over decision vectors; fn(self) executes real code, calling self.decide(boolexpr)"""
        stack=[[]]; paths=0
        while stack:
            prefix=stack.pop()
            self.prefix=prefix; self.pos=0; self.trail=[]; self.pending=[]
            self.s.push()
            try:
                out=fn(self)
            finally:
                pass
            paths+=1
            yield list(self.trail), out
            self.s.pop()
            for alt in self.pending: stack.append(alt)
    def decide(self, cond):
        # cond: z3 Bool
        if self.pos < len(self.prefix):
            val=self.prefix[self.pos]; self.pos+=1
            self.s.add(cond if val else z3.Not(cond)); self.trail.append((cond,val)); return val
        self.queries+=2
        self.s.push(); self.s.add(cond); t=str(self.s.check())=="sat"; self.s.pop()
        self.s.push(); self.s.add(z3.Not(cond)); f=str(self.s.check())=="sat"; self.s.pop()
        assert t or f
        val = t
        if t and f:
            self.pending.append([v for _,v in self.trail]+[False])
        self.pos+=1; self.prefix=self.prefix+[val]
        self.s.add(cond if val else z3.Not(cond)); self.trail.append((cond,val)); return val

class Tok:
    """opaque symbolic value"""
    def __init__(self,n): self.n=n
    def __repr__(self): return f"<{self.n}>"
import numbers; numbers.Real.register(Tok)

def build_kwargs(ex, order):
    kw={}
    for n in order:
        if ex.decide(ex.P[n]): kw[n]=Tok(n)
    return kw

def spec(P):
    """documented grammar -> (accept, dim, momentum) as z3 terms over presence vars"""
    g=lambda *ns: z3.Or(*[P[n] for n in ns])
    one=lambda *ns: z3.PbEq([(P[n],1) for n in ns],1)
    none=lambda *ns: z3.Not(g(*ns))
    X,Y,RHO,PHI=("x","px"),("y","py"),("rho","pt"),("phi",)
    Z,TH,ETA=("z","pz"),("theta",),("eta",)
    T,TAU=("t","E","e","energy"),("tau","M","m","mass")
    az_xy=z3.And(one(*X),one(*Y),none(*RHO),none(*PHI)); az_rp=z3.And(one(*RHO),one(*PHI),none(*X),none(*Y))
    lon_cnt=[(P[n],1) for n in Z+TH+ETA]; tem_cnt=[(P[n],1) for n in T+TAU]
    has_l=z3.PbEq(lon_cnt,1); no_l=z3.PbEq(lon_cnt,0); has_t=z3.PbEq(tem_cnt,1); no_t=z3.PbEq(tem_cnt,0)
    ok=z3.And(z3.Or(az_xy,az_rp), z3.Or(z3.And(no_l,no_t), z3.And(has_l,no_t), z3.And(has_l,has_t)), z3.Not(P["charge"]))
    dim=z3.If(has_t, 4, z3.If(has_l, 3, 2))
    mom=g("px","py","pt","pz","E","e","energy","M","m","mass")
    return ok, dim, mom

def check_obj(bound, order):
    ex=Explorer(bound); ok,dim,mom=spec(ex.P)
    bad=[]; n=0; t0=time.time()
    def fn(ex):
        kw=build_kwargs(ex, order)
        try:
            v=vector.obj(**kw); return ("ok", type(v).__name__, dict(kw))
        except TypeError as e:
            return ("TypeError", None, dict(kw))
    for trail,out in ex.run(fn):
        n+=1
        # compare with spec under path condition (solver is ex.s with path asserted? re-assert)
        s=z3.Solver()
        for c,v in trail: s.add(c if v else z3.Not(c))
        if out[0]=="ok":
            d=int(out[1][-2]); m=out[1].startswith("Momentum")
            s.add(z3.Not(z3.And(ok, dim==d, mom==m)))
        else:
            s.add(ok)
        ex.queries+=1
        if str(s.check())=="sat": bad.append((out[0], out[1], sorted(out[2])))
    return n, len(bad), bad[:6], round(time.time()-t0,1), ex.queries
for bound in (5,):
    print("bound",bound, check_obj(bound, UNIVERSE), flush=True)
