import z3, time
F=z3.Float64(); RNE=z3.RNE()
x,y,c=[z3.FP(n,F) for n in "x y c".split()]
def fin(*xs): return z3.And(*[z3.Not(z3.Or(z3.fpIsNaN(v), z3.fpIsInf(v))) for v in xs])
zero=z3.FPVal(0.0,F)
qs={"add_mono":[fin(x,y,c), z3.fpLEQ(x,y), z3.Not(z3.fpLEQ(z3.fpAdd(RNE,x,c), z3.fpAdd(RNE,y,c)))],
    "mul_mono":[fin(x,y,c), z3.fpGEQ(c,zero), z3.fpLEQ(x,y), z3.Not(z3.fpLEQ(z3.fpMul(RNE,x,c), z3.fpMul(RNE,y,c)))]}
for nm,cons in qs.items():
    s=z3.Solver(); s.set("timeout",180000)
    for k in cons: s.add(k)
    open(nm+".smt2","w").write("(set-logic QF_FP)\n"+s.to_smt2())
    t=time.time(); r=s.check(); print(nm,"z3",r,round(time.time()-t,1),flush=True)
