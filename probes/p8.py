import z3, time
import eng
from eng import Sym, LIB
from vector._compute.spatial import rotate_euler as re_, rotateX, rotateY, rotate_axis, rotate_quaternion
from vector._compute.planar import rotateZ
def R(n): return Sym(z3.Real(n))
def rx(a,v): return rotateX.xy_z(LIB,a,*v)
def ry(a,v): return rotateY.xy_z(LIB,a,*v)
def rz(a,v):
    x,y = rotateZ.xy(LIB,a,v[0],v[1]); return (x,y,v[2])
rot={"x":rx,"y":ry,"z":rz}
from vector._methods import AzimuthalXY, LongitudinalZ
for order in ["xzx","xyx","yxy","yzy","zyz","zxz","xzy","xyz","yxz","yzx","zyx","zxy"]:
    C=eng.new()
    phi,theta,psi,x,y,z = [R(n) for n in "phi theta psi x y z".split()]
    f=re_.dispatch_map[AzimuthalXY,LongitudinalZ,order][0]
    got=f(LIB,phi,theta,psi,x,y,z)
    res={}
    for sign in (1,-1):
      for name,angs in (("phi-first",(phi,theta,psi)),("psi-first",(psi,theta,phi))):
        # apply rotation about order[2] by angs[0] first? try: v -> A(order[0], a0) B(order[1], a1) C(order[2], a2) v
        v=(x,y,z)
        v=rot[order[2]](sign*angs[2],v); v=rot[order[1]](sign*angs[1],v); v=rot[order[0]](sign*angs[0],v)
        goal=z3.And(*[g.t==e.t for g,e in zip(got,v)])
        r=eng.prove([],goal,timeout=20000)
        res[(sign,name)]=r[0]
    print(order,res,flush=True)
