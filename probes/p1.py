import z3, sys, time
import eng
from eng import Sym, LIB
from vector._compute.planar import add as padd, phi as pphi, x as px_, y as py_, rho as prho, deltaphi, subtract as psub, scale as pscale
from vector._compute.spatial import eta as seta, theta as stheta, z as sz, mag as smag, costheta

def R(n): return Sym(z3.Real(n))
results = []
def report(name, r):
    print(f"{name:40s} {r[0]:8s} {r[1]:.2f}s", flush=True)
    if r[2] is not None: print("   model:", str(r[2])[:400])

# 1. planar add rhophi_rhophi vs Cartesian
C = eng.new()
rho1, phi1, rho2, phi2 = R("rho1"), R("phi1"), R("rho2"), R("phi2")
dom = [rho1.t > 0, rho2.t > 0]
R_, P_ = padd.rhophi_rhophi(LIB, rho1, phi1, rho2, phi2)
xr = px_.rhophi(LIB, R_, P_); yr = py_.rhophi(LIB, R_, P_)
xe, ye = padd.xy_xy(LIB, px_.rhophi(LIB, rho1, phi1), py_.rhophi(LIB, rho1, phi1), px_.rhophi(LIB, rho2, phi2), py_.rhophi(LIB, rho2, phi2))
# result must be representable: sum nonzero
dom.append(z3.Or(xe.t != 0, ye.t != 0))
report("add rhophi_rhophi decode==cart", eng.prove(dom, z3.And(xr.t == xe.t, yr.t == ye.t)))

# 1b subtract
C = eng.new()
rho1, phi1, rho2, phi2 = R("rho1"), R("phi1"), R("rho2"), R("phi2")
dom = [rho1.t > 0, rho2.t > 0]
R_, P_ = psub.rhophi_rhophi(LIB, rho1, phi1, rho2, phi2)
xr = px_.rhophi(LIB, R_, P_); yr = py_.rhophi(LIB, R_, P_)
xe, ye = psub.xy_xy(LIB, px_.rhophi(LIB, rho1, phi1), py_.rhophi(LIB, rho1, phi1), px_.rhophi(LIB, rho2, phi2), py_.rhophi(LIB, rho2, phi2))
dom.append(z3.Or(xe.t != 0, ye.t != 0))
report("subtract rhophi_rhophi decode==cart", eng.prove(dom, z3.And(xr.t == xe.t, yr.t == ye.t)))

# 2. phi accessor
C = eng.new()
rho, phi = R("rho"), R("phi")
dom = [rho.t > 0, phi.t > -C.pi, phi.t <= C.pi]
got = pphi.xy(LIB, px_.rhophi(LIB, rho, phi), py_.rhophi(LIB, rho, phi))
eng.angle_injectivity(got.t, phi.t)
report("phi.xy(cart(rho,phi))==phi", eng.prove(dom, got.t == phi.t))

# 2b. rho accessor
C = eng.new()
rho, phi = R("rho"), R("phi")
got = prho.xy(LIB, px_.rhophi(LIB, rho, phi), py_.rhophi(LIB, rho, phi))
report("rho.xy(cart)==rho", eng.prove([rho.t >= 0], got.t == rho.t))

# 3. eta
C = eng.new()
rho, phi, eta = R("rho"), R("phi"), R("eta")
z = sz.rhophi_eta(LIB, rho, phi, eta)
got = seta.rhophi_z(LIB, rho, phi, z)
report("eta.rhophi_z(z(eta))==eta", eng.prove([rho.t > 0], got.t == eta.t))

# 3b eta xy_z path
C = eng.new()
x, y, eta = R("x"), R("y"), R("eta")
z = sz.xy_eta(LIB, x, y, eta)
got = seta.xy_z(LIB, x, y, z)
report("eta.xy_z(z(eta))==eta", eng.prove([z3.Or(x.t != 0, y.t != 0)], got.t == eta.t))

# 4. theta
C = eng.new()
rho, phi, th = R("rho"), R("phi"), R("theta")
z = sz.rhophi_theta(LIB, rho, phi, th)
got = stheta.rhophi_z(LIB, rho, phi, z)
eng.angle_injectivity(got.t, th.t)
report("theta.rhophi_z(z(theta))==theta", eng.prove([rho.t > 0, th.t > 0, th.t < C.pi], got.t == th.t))

# 4b. theta from eta vs z from eta
C = eng.new()
rho, phi, eta = R("rho"), R("phi"), R("eta")
th = stheta.rhophi_eta(LIB, rho, phi, eta)
z1 = sz.rhophi_theta(LIB, rho, phi, th)
z2 = sz.rhophi_eta(LIB, rho, phi, eta)
report("z(theta(eta))==z(eta)", eng.prove([rho.t > 0], z1.t == z2.t))

# 4c. eta from theta
C = eng.new()
rho, phi, th = R("rho"), R("phi"), R("theta")
e = seta.rhophi_theta(LIB, rho, phi, th)
z1 = sz.rhophi_eta(LIB, rho, phi, e)
z2 = sz.rhophi_theta(LIB, rho, phi, th)
report("z(eta(theta))==z(theta)", eng.prove([rho.t > 0, th.t > 0, th.t < C.pi], z1.t == z2.t))

# 5. mag variants
C = eng.new()
rho, phi, th = R("rho"), R("phi"), R("theta")
z = sz.rhophi_theta(LIB, rho, phi, th)
report("mag.rhophi_theta==mag.rhophi_z", eng.prove([rho.t > 0, th.t > 0, th.t < C.pi], smag.rhophi_theta(LIB, rho, phi, th).t == smag.rhophi_z(LIB, rho, phi, z).t))
C = eng.new()
rho, phi, eta = R("rho"), R("phi"), R("eta")
z = sz.rhophi_eta(LIB, rho, phi, eta)
report("mag.rhophi_eta==mag.rhophi_z", eng.prove([rho.t > 0], smag.rhophi_eta(LIB, rho, phi, eta).t == smag.rhophi_z(LIB, rho, phi, z).t))

# 6. planar scale rhophi vs xy, negative factor included
C = eng.new()
rho, phi, k = R("rho"), R("phi"), R("k")
r2, p2 = pscale.rhophi(LIB, k, rho, phi)
xr = px_.rhophi(LIB, r2, p2); yr = py_.rhophi(LIB, r2, p2)
xe, ye = pscale.xy(LIB, k, px_.rhophi(LIB, rho, phi), py_.rhophi(LIB, rho, phi))
report("scale.rhophi decode==cart", eng.prove([rho.t > 0], z3.And(xr.t == xe.t, yr.t == ye.t)))
# range: result phi in [-pi,pi)
report("scale.rhophi phi in [-pi,pi)", eng.prove([rho.t > 0], z3.And(p2.t >= -C.pi, p2.t < C.pi)))

# 7. deltaphi range & consistency
C = eng.new()
x1, y1, x2, y2 = R("x1"), R("y1"), R("x2"), R("y2")
d = deltaphi.xy_xy(LIB, x1, y1, x2, y2)
report("deltaphi in [-pi,pi)", eng.prove([], z3.And(d.t >= -C.pi, d.t < C.pi)))
