import z3, itertools
import eng2 as eng
from eng2 import Sym, LIB, S
from vector.backends import object as vo
def mk(base, name): return type(name, (base,), {"lib": LIB, "__slots__": ()})
SV2 = mk(vo.VectorObject2D, "SV2"); SM2 = mk(vo.MomentumObject2D, "SM2")
SV3 = mk(vo.VectorObject3D, "SV3"); SM3 = mk(vo.MomentumObject3D, "SM3")
SV4 = mk(vo.VectorObject4D, "SV4"); SM4 = mk(vo.MomentumObject4D, "SM4")
for g, m in ((SV2, SM2), (SV3, SM3), (SV4, SM4)):
    for c, (p2, p3, p4) in ((g, (SV2, SV3, SV4)), (m, (SM2, SM3, SM4))):
        c.ProjectionClass2D, c.ProjectionClass3D, c.ProjectionClass4D = p2, p3, p4
        c.GenericClass, c.MomentumClass = g, m
def R(n): return Sym(z3.Real(n))
AZ = {"xy": vo.AzimuthalObjectXY, "rhophi": vo.AzimuthalObjectRhoPhi}
LO = {"z": vo.LongitudinalObjectZ, "theta": vo.LongitudinalObjectTheta, "eta": vo.LongitudinalObjectEta}
TE = {"t": vo.TemporalObjectT, "tau": vo.TemporalObjectTau}
def make(dimsys, tag, momentum=False):
    pi = eng.CTX.pi; dom = eng.CTX.dom
    az = dimsys[0]
    if az == "xy": a = AZ[az](R(f"x{tag}"), R(f"y{tag}"))
    else:
        rho, phi = R(f"rho{tag}"), R(f"phi{tag}")
        a = AZ[az](rho, phi); dom += [rho.n > 0, phi.n > -pi, phi.n <= pi]
    if len(dimsys) == 1: return (SM2 if momentum else SV2)(azimuthal=a)
    lo = dimsys[1]
    if lo == "z": l = LO[lo](R(f"z{tag}"))
    elif lo == "theta":
        th = R(f"theta{tag}"); l = LO[lo](th); dom += [th.n > 0, th.n < pi]
    else: l = LO[lo](R(f"eta{tag}"))
    if lo != "z" and az == "xy": dom.append(z3.Or(a.x.n != 0, a.y.n != 0))
    if len(dimsys) == 2: return (SM3 if momentum else SV3)(azimuthal=a, longitudinal=l)
    te = dimsys[2]
    if te == "t": t = TE[te](R(f"t{tag}"))
    else:
        tau = R(f"tau{tag}"); t = TE[te](tau); dom.append(tau.n >= 0)
    return (SM4 if momentum else SV4)(azimuthal=a, longitudinal=l, temporal=t)

def ref_cart(v):
    a = v.azimuthal
    if isinstance(a, vo.AzimuthalObjectXY): x, y = S(a.x), S(a.y); rho = None
    else:
        c, s = eng.cossin(S(a.phi)); rho = S(a.rho); x, y = rho * c, rho * s
    out = [x, y]
    if hasattr(v, "longitudinal"):
        l = v.longitudinal
        if rho is None and not isinstance(l, vo.LongitudinalObjectZ): rho = LIB.sqrt(x * x + y * y)
        if isinstance(l, vo.LongitudinalObjectZ): z = S(l.z)
        elif isinstance(l, vo.LongitudinalObjectTheta):
            c, s = eng.cossin(S(l.theta)); z = rho * c / s
        else:
            E = LIB.exp(S(l.eta)); z = rho * (E - 1 / E) / 2
        out.append(z)
        if hasattr(v, "temporal"):
            t = v.temporal
            if isinstance(t, vo.TemporalObjectT): tt = S(t.t)
            else:
                tau = S(t.tau); tt = LIB.sqrt(tau * tau + x * x + y * y + z * z)
            out.append(tt)
    return out
SYS2 = [("xy",), ("rhophi",)]
SYS3 = [(a, l) for a in ("xy", "rhophi") for l in ("z", "theta", "eta")]
SYS4 = [(a, l, t) for a in ("xy", "rhophi") for l in ("z", "theta", "eta") for t in ("t", "tau")]
