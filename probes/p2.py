import z3, time
import eng
from eng import Sym, LIB
from vector._compute.planar import add as padd, phi as pphi, x as px_, y as py_, rho as prho
from vector._compute.spatial import eta as seta, theta as stheta, z as sz, mag as smag
def R(n): return Sym(z3.Real(n))
def sat_check(dom):
    s=z3.Solver(); s.set("timeout",20000)
    for c in eng.CTX.cons+eng.CTX.defd+dom: s.add(c)
    t=time.time(); r=s.check(); return str(r), round(time.time()-t,2)
# vacuity: eta
C=eng.new(); rho,phi,eta=R("rho"),R("phi"),R("eta")
z=sz.rhophi_eta(LIB,rho,phi,eta); got=seta.rhophi_z(LIB,rho,phi,z)
eng.link_fractions(); eng.exp_injectivity()
print("eta witness", sat_check([rho.t>0, eta.t==1]))
# mutated: z = rho*sinh(eta)*2
print("eta mutated", eng.prove([rho.t>0], seta.rhophi_z(LIB,rho,phi,z*2).t==eta.t))
# theta
C=eng.new(); rho,phi,th=R("rho"),R("phi"),R("theta")
z=sz.rhophi_theta(LIB,rho,phi,th); got=stheta.rhophi_z(LIB,rho,phi,z); eng.angle_injectivity(got.t,th.t)
eng.link_fractions()
print("theta witness", sat_check([rho.t>0, th.t==1]))
print("theta mutated", eng.prove([rho.t>0, th.t>0, th.t<C.pi], stheta.rhophi_z(LIB,rho,phi,-z).t==th.t))
# phi
C=eng.new(); rho,phi=R("rho"),R("phi")
got=pphi.xy(LIB, px_.rhophi(LIB,rho,phi), py_.rhophi(LIB,rho,phi)); eng.angle_injectivity(got.t,phi.t)
print("phi witness", sat_check([rho.t>0, phi.t==2]))
got2=pphi.xy(LIB, py_.rhophi(LIB,rho,phi), px_.rhophi(LIB,rho,phi)); eng.angle_injectivity(got2.t,phi.t)
print("phi mutated(swap)", eng.prove([rho.t>0, phi.t>-C.pi, phi.t<=C.pi], got2.t==phi.t))
