import mpmath as mp, numbers
from vector.backends import object as vo
mp.mp.dps = 50
numbers.Real.register(mp.mpf)
class MpLib:
    pi = mp.pi; inf = mp.inf; nan = mp.nan
    sqrt=staticmethod(lambda a: mp.sqrt(a) if a >= 0 else mp.nan)
    sin=staticmethod(mp.sin); cos=staticmethod(mp.cos); tan=staticmethod(mp.tan)
    arctan2=staticmethod(mp.atan2); arctan=staticmethod(mp.atan); arccos=staticmethod(lambda a: mp.acos(a) if -1<=a<=1 else mp.nan)
    exp=staticmethod(mp.exp); log=staticmethod(lambda a: mp.log(a) if a>0 else mp.nan); sinh=staticmethod(mp.sinh); arcsinh=staticmethod(mp.asinh)
    absolute=staticmethod(abs); sign=staticmethod(mp.sign)
    copysign=staticmethod(lambda a,b: abs(a) if b>=0 else -abs(a))
    maximum=staticmethod(max); minimum=staticmethod(min)
    @staticmethod
    def nan_to_num(a, nan=0.0, posinf=None, neginf=None):
        if mp.isnan(a): return nan
        return a
    @staticmethod
    def isclose(a,b,rtol=1e-5,atol=1e-8,equal_nan=False): return abs(a-b) <= atol + rtol*abs(b)
LIBM=MpLib()
def mk(base, name): return type(name, (base,), {"lib": LIBM, "__slots__": ()})
V2,M2,V3,M3,V4,M4=[mk(getattr(vo,n),"Q"+n) for n in ("VectorObject2D","MomentumObject2D","VectorObject3D","MomentumObject3D","VectorObject4D","MomentumObject4D")]
for g, m in ((V2, M2), (V3, M3), (V4, M4)):
    for c, (p2, p3, p4) in ((g, (V2, V3, V4)), (m, (M2, M3, M4))):
        c.ProjectionClass2D, c.ProjectionClass3D, c.ProjectionClass4D = p2, p3, p4
        c.GenericClass, c.MomentumClass = g, m
f=mp.mpf
v=V4(azimuthal=vo.AzimuthalObjectRhoPhi(f("1.3"),f("-2.9")), longitudinal=vo.LongitudinalObjectEta(f("0.7")), temporal=vo.TemporalObjectTau(f("0.5")))
p=M4(azimuthal=vo.AzimuthalObjectXY(f("0.3"),f("-0.4")), longitudinal=vo.LongitudinalObjectTheta(f("2.1")), temporal=vo.TemporalObjectT(f("3.0")))
w=v.boost_p4(p)
print(type(w).__name__, w.azimuthal, w.temporal)
print("dot invariance:", v.dot(v) - w.dot(w))
a=V2(azimuthal=vo.AzimuthalObjectRhoPhi(f(2),f("3.0"))); b=V2(azimuthal=vo.AzimuthalObjectRhoPhi(f(1),f("-3.0")))
c=a+b; print(c, c.x-(a.x+b.x), c.y-(a.y+b.y))
print((a*-2).phi, a.deltaphi(b), a==b, a!=b)
