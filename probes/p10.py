import z3, time, sys
import eng, symobj
from symobj import *
def core_prove(dom, goal, timeout=30000):
    return eng.prove(dom, goal, timeout=timeout)
which = sys.argv[1]
t00=time.time()
if which == "boostZ":
    for s in SYS4:
        eng.new()
        v, dom = make(s, "1"); b = R("beta"); dom += [b.t > -1, b.t < 1]
        w = v.boostZ(beta=b)
        x, y, z, t = ref_cart(v)
        g = eng.lift(LIB.div(1, LIB.sqrt(1 - b * b)))
        exp = [x, y, g * (z + b.t * t), g * (t + b.t * z)]
        # result representable?
        got = ref_cart(w)
        r = eng.prove_eqs(dom, list(zip(got, exp)))
        print("boostZ", s, type(w.longitudinal).__name__, type(w.temporal).__name__, [(a,round(b,2)) for a,b in r], flush=True)
if which == "boostp4":
    for s in SYS4:
      for s2 in [("xy","z","t"),("rhophi","eta","tau"),("xy","theta","t")]:
        eng.new()
        v, dom = make(s, "1"); p, dom2 = make(s2, "2"); dom += dom2
        px, py, pz, pt = ref_cart(p)
        dom += [pt > 0, pt*pt - px*px - py*py - pz*pz > 0]
        w = v.boost_p4(p)
        x, y, z, t = ref_cart(v)
        m = eng.lift(LIB.sqrt(Sym(pt*pt - px*px - py*py - pz*pz)))
        # reference active boost by velocity p/E: 
        bp = (px*x + py*y + pz*z)
        g = pt / m
        k = (bp / (m * (pt + m)) + t / m)   # standard formula: x' = x + p*( (p.x)/(m(E+m)) + t/m )
        exp = [x + px * k, y + py * k, z + pz * k, (pt * t + bp) / m]
        got = ref_cart(w)
        r = eng.prove_eqs(dom, list(zip(got, exp)))
        print("boost_p4", s, s2, [(a,round(b,2)) for a,b in r], flush=True)
print("total", round(time.time()-t00,1))
