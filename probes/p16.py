import z3, time
F=z3.Float64(); RNE=z3.RNE()
def fp(n): return z3.FP(n,F)
a,b,rt1,at1,rt2,at2=[fp(n) for n in "a b rt1 at1 rt2 at2".split()]
def fin(*xs): return z3.And(*[z3.Not(z3.Or(z3.fpIsNaN(x), z3.fpIsInf(x))) for x in xs])
def isclose(a,b,rt,at): return z3.fpLEQ(z3.fpAbs(z3.fpSub(RNE,a,b)), z3.fpAdd(RNE,at,z3.fpMul(RNE,rt,z3.fpAbs(b))))
def run(name, *cons, to=120000):
    s=z3.Solver(); s.set("timeout",to)
    for c in cons: s.add(c)
    t=time.time(); r=s.check(); print(name, r, round(time.time()-t,2), flush=True)
    return s
zero=z3.FPVal(0.0,F)
# reflexive
run("isclose reflexive", fin(a,rt1,at1), z3.fpGEQ(rt1,zero), z3.fpGEQ(at1,zero), z3.Not(isclose(a,a,rt1,at1)))
# implied by ==
run("== implies isclose", fin(a,b,rt1,at1), z3.fpGEQ(rt1,zero), z3.fpGEQ(at1,zero), z3.fpEQ(a,b), z3.Not(isclose(a,b,rt1,at1)))
# monotone in atol
run("monotone atol", fin(a,b,rt1,at1,at2), z3.fpGEQ(rt1,zero), z3.fpGEQ(at1,zero), z3.fpGEQ(at2,at1), isclose(a,b,rt1,at1), z3.Not(isclose(a,b,rt1,at2)))
run("monotone rtol", fin(a,b,rt1,rt2,at1), z3.fpGEQ(rt1,zero), z3.fpGEQ(at1,zero), z3.fpGEQ(rt2,rt1), isclose(a,b,rt1,at1), z3.Not(isclose(a,b,rt2,at1)))
# not_equal negation (current buggy code): (x1!=x2)&(y1!=y2) vs not((x1==x2)&(y1==y2))
x1,y1,x2,y2=[fp(n) for n in "x1 y1 x2 y2".split()]
ne=z3.And(z3.Not(z3.fpEQ(x1,x2)), z3.Not(z3.fpEQ(y1,y2))); eq=z3.And(z3.fpEQ(x1,x2), z3.fpEQ(y1,y2))
s=run("ne == not eq (expect sat: bug)", fin(x1,y1,x2,y2), ne != z3.Not(eq)); print(s.model())
# rho >= 0 : sqrt(x*x+y*y) >= 0 or NaN
rho=z3.fpSqrt(RNE, z3.fpAdd(RNE, z3.fpMul(RNE,x1,x1), z3.fpMul(RNE,y1,y1)))
run("rho>=0 fp", fin(x1,y1), z3.Not(z3.fpGEQ(rho, zero)))
