import z3, time
import eng
from eng import Sym, LIB
from vector._compute.planar import add as padd, x as px_, y as py_, subtract as psub
def R(n): return Sym(z3.Real(n))
def is_quad(c):
    return z3.is_app(c) and c.decl().kind()==z3.Z3_OP_IMPLIES
for mod in (padd, psub):
    C = eng.new()
    rho1, phi1, rho2, phi2 = R("rho1"), R("phi1"), R("rho2"), R("phi2")
    dom = [rho1.t > 0, rho2.t > 0]
    R_, P_ = mod.rhophi_rhophi(LIB, rho1, phi1, rho2, phi2)
    xr = px_.rhophi(LIB, R_, P_); yr = py_.rhophi(LIB, R_, P_)
    xe, ye = mod.xy_xy(LIB, px_.rhophi(LIB, rho1, phi1), py_.rhophi(LIB, rho1, phi1), px_.rhophi(LIB, rho2, phi2), py_.rhophi(LIB, rho2, phi2))
    dom.append(z3.Or(xe.t != 0, ye.t != 0))
    eng.link_fractions()
    for goal,name in ((xr.t==xe.t,"x"),(yr.t==ye.t,"y"),(z3.And(xr.t==xe.t,yr.t==ye.t),"xy")):
        s = z3.Solver(); s.set("timeout",60000)
        for c in C.cons:
            if is_quad(c):
                # keep sqrt/def implications whose guard is asserted in defd: convert
                g, body = c.children()
                if any(z3.eq(g,d) for d in C.defd): s.add(body)
                continue
            s.add(c)
        for d in C.defd+dom: s.add(d)
        s.add(z3.Not(goal))
        t=time.time(); r=s.check(); print(mod.__name__, name, r, round(time.time()-t,2), flush=True)
