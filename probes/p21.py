import z3, time, sys
import eng2 as eng, symobj2
from symobj2 import *
def show(name, r): print(f"{name:45s}", [(a, round(b,2), c) for a,b,c in (r if isinstance(r,list) else [r])], flush=True)
def sgn_eq(a,b):
    a,b=S(a),S(b); return z3.And((a>0).t==(b>0).t, (a<0).t==(b<0).t)
for s in SYS3:
    C=eng.new(); v=make(s,"1")
    x,y,z=ref_cart(v)
    show(f"costheta sign z {s}", eng.prove(sgn_eq(v.costheta, z)))
    C=eng.new(); v=make(s,"1")
    th=S(v.theta)
    show(f"theta in [0,pi] {s}", eng.prove(z3.And(th.term()>=0, th.term()<=C.pi)))
for s in SYS4:
    C=eng.new(); v=make(s,"1")
    x,y,z,t=ref_cart(v)
    C.dom += [(t>0).t, (t*t-x*x-y*y-z*z>0).t]
    g=S(v.gamma); b=S(v.beta)
    show(f"gamma>=1 {s}", eng.prove((g>=1).t))
    show(f"0<=beta<1 {s}", eng.prove(z3.And((b>=0).t,(b<1).t)))
for s in SYS4[:4]+SYS4[-2:]:
    C=eng.new(); tol=R("tol"); v=make(s,"1")
    tl,ll,sl=v.is_timelike(tol), v.is_lightlike(tol), v.is_spacelike(tol)
    show(f"timelike/lightlike disjoint {s}", eng.prove(z3.Not(z3.And(tl.t,ll.t))))
    show(f"lightlike/spacelike disjoint {s} (expect sat: defect)", eng.prove(z3.Not(z3.And(sl.t,ll.t))))
C=eng.new(); a=make(("xy","z"),"1"); b=make(("rhophi","eta"),"2")
ax,ay,az=ref_cart(a); bx,by,bz=ref_cart(b)
C.dom += [z3.Or((ax!=0).t,(ay!=0).t,(az!=0).t)]
da=S(a.deltaangle(b))
show("deltaangle in [0,pi]", eng.prove(z3.And(da.term()>=0, da.term()<=C.pi)))
