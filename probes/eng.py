"""Probe engine: symbolic scalars over z3 reals; transcendental functions become
fresh variables constrained by instantiated sound axioms (QF_NRA)."""
import z3, fractions, itertools, time

class Ctx:
    def __init__(self):
        self.cons = []      # axiom instances (sound facts)
        self.defd = []      # definedness conditions (regular-domain side conditions)
        self.cache = {}
        self.n = 0
        self.pi = z3.Real("pi")
        self.cons += [self.pi > z3.RealVal("3.14159"), self.pi < z3.RealVal("3.1416")]
        self.angles = {}    # term-id -> (term, c, s)
        self.exps = {}      # term-id -> (term, E)
    def fresh(self, p):
        self.n += 1
        return z3.Real(f"{p}!{self.n}")

CTX = None

def lift(v):
    if isinstance(v, Sym): return v.t
    if isinstance(v, SymBool): return z3.If(v.t, z3.RealVal(1), z3.RealVal(0))
    if isinstance(v, bool): return z3.RealVal(int(v))
    if isinstance(v, int): return z3.RealVal(v)
    if isinstance(v, float):
        if v != v or abs(v) == float("inf"): return z3.Real("SING")
        return z3.RealVal(str(fractions.Fraction(v)))
    raise TypeError(type(v))

def lb(o):
    if isinstance(o, SymBool): return o.t
    if isinstance(o, bool): return z3.BoolVal(o)
    raise TypeError(type(o))

class SymBool:
    def __init__(self, t): self.t = t
    def __and__(self, o): return SymBool(z3.And(self.t, lb(o)))
    __rand__ = __and__
    def __or__(self, o): return SymBool(z3.Or(self.t, lb(o)))
    __ror__ = __or__
    def __invert__(self): return SymBool(z3.Not(self.t))
    def __bool__(self): raise RuntimeError("branch on symbolic bool")
    def __mul__(self, o): return Sym(lift(self)) * o
    __rmul__ = __mul__

class Sym:
    def __init__(self, t): self.t = t
    def __add__(self, o): return Sym(self.t + lift(o))
    def __radd__(self, o): return Sym(lift(o) + self.t)
    def __sub__(self, o): return Sym(self.t - lift(o))
    def __rsub__(self, o): return Sym(lift(o) - self.t)
    def __mul__(self, o): return Sym(self.t * lift(o))
    def __rmul__(self, o): return Sym(lift(o) * self.t)
    def __truediv__(self, o): return LIB.div(self, o)
    def __rtruediv__(self, o): return LIB.div(o, self)
    def __neg__(self): return Sym(-self.t)
    def __pos__(self): return self
    def __pow__(self, o):
        if isinstance(o, int) and o >= 0:
            r = z3.RealVal(1)
            for _ in range(o): r = r * self.t
            return Sym(r)
        if o == 0.5: return LIB.sqrt(self)
        if o == -0.5: return LIB.div(1, LIB.sqrt(self))
        if isinstance(o, int) and o < 0: return LIB.div(1, self ** (-o))
        raise NotImplementedError(o)
    def __mod__(self, o): return LIB.mod(self, o)
    def __eq__(self, o): return SymBool(self.t == lift(o))
    def __ne__(self, o): return SymBool(self.t != lift(o))
    def __lt__(self, o): return SymBool(self.t < lift(o))
    def __le__(self, o): return SymBool(self.t <= lift(o))
    def __gt__(self, o): return SymBool(self.t > lift(o))
    def __ge__(self, o): return SymBool(self.t >= lift(o))
    def __hash__(self): return id(self)
    def __bool__(self): raise RuntimeError("branch on symbolic value")
    def __repr__(self): return f"Sym({self.t})"

import numbers
numbers.Real.register(Sym)

# ---------- linear forms over angle atoms ----------
def linform(t):
    """t -> (dict atom_id->(atom_term, Fraction coeff), Fraction pi_coeff, ok)"""
    t = z3.simplify(t, som=False)
    CTX.keep = getattr(CTX, "keep", []); CTX.keep.append(t)
    return _lin(t)

def _q(v):
    return fractions.Fraction(v.numerator_as_long(), v.denominator_as_long())

def _lin(t):
    k = t.decl().kind() if z3.is_app(t) else None
    if z3.is_rational_value(t):
        if _q(t) == 0: return {}, fractions.Fraction(0)
        raise ValueError("numeric constant in angle")
    if z3.eq(t, CTX.pi):
        return {}, fractions.Fraction(1)
    if k == z3.Z3_OP_ADD:
        atoms, pc = {}, fractions.Fraction(0)
        for ch in t.children():
            a, p = _lin(ch)
            pc += p
            for i, (at, c) in a.items():
                if i in atoms: atoms[i] = (at, atoms[i][1] + c)
                else: atoms[i] = (at, c)
        return {i: v for i, v in atoms.items() if v[1] != 0}, pc
    if k == z3.Z3_OP_SUB:
        ch = t.children()
        a, pc = _lin(ch[0]); a = dict(a)
        for c2 in ch[1:]:
            b, p = _lin(c2); pc -= p
            for i, (at, c) in b.items():
                if i in a: a[i] = (at, a[i][1] - c)
                else: a[i] = (at, -c)
        return {i: v for i, v in a.items() if v[1] != 0}, pc
    if k == z3.Z3_OP_UMINUS:
        a, pc = _lin(t.children()[0])
        return {i: (at, -c) for i, (at, c) in a.items()}, -pc
    if k == z3.Z3_OP_MUL:
        ch = t.children()
        consts = [c for c in ch if z3.is_rational_value(c)]
        rest = [c for c in ch if not z3.is_rational_value(c)]
        if len(rest) == 1:
            f = fractions.Fraction(1)
            for c in consts: f *= _q(c)
            a, pc = _lin(rest[0])
            return {i: (at, c * f) for i, (at, c) in a.items()}, pc * f
    # atom
    return {t.get_id(): (t, fractions.Fraction(1))}, fractions.Fraction(0)


def cs_of_atom(at, den):
    """(c, s) variables for angle at/den."""
    key = (at.get_id(), den)
    if key in CTX.angles: return CTX.angles[key][1:]
    c, s = CTX.fresh("c"), CTX.fresh("s")
    CTX.cons.append(c * c + s * s == 1)
    term = at / den if den != 1 else at
    CTX.angles[key] = (term, c, s)
    quadrant(term, c, s)
    return c, s

def quadrant(a, c, s):
    pi = CTX.pi
    CTX.cons += [
        z3.Implies(z3.And(a > 0, a < pi), s > 0),
        z3.Implies(z3.And(a > -pi, a < 0), s < 0),
        z3.Implies(z3.And(a > -pi / 2, a < pi / 2), c > 0),
        z3.Implies(z3.And(a > pi / 2, a < 3 * pi / 2), c < 0),
        z3.Implies(z3.And(a > -3 * pi / 2, a < -pi / 2), c < 0),
        z3.Implies(a == 0, z3.And(c == 1, s == 0)),
        z3.Implies(z3.Or(a == pi, a == -pi), z3.And(c == -1, s == 0)),
        z3.Implies(a == pi / 2, z3.And(c == 0, s == 1)),
        z3.Implies(a == -pi / 2, z3.And(c == 0, s == -1)),
    ]

def mulang(c, s, n):
    """cos, sin of n*angle (n integer)"""
    if n < 0:
        cc, ss = mulang(c, s, -n); return cc, -ss
    rc, rs = z3.RealVal(1), z3.RealVal(0)
    for _ in range(n):
        rc, rs = rc * c - rs * s, rs * c + rc * s
    return rc, rs

def cossin(t):
    CTX.keep = getattr(CTX, "keep", []); CTX.keep.append(t)
    key = ("cs", t.get_id())
    if key in CTX.cache: return CTX.cache[key]
    atoms, pc = linform(t)
    rc, rs = z3.RealVal(1), z3.RealVal(0)
    for i, (at, coef) in atoms.items():
        den = coef.denominator
        c, s = cs_of_atom(at, den)
        if den != 1 and (at.get_id(), 1) in CTX.angles:
            pass
        cc, ss = mulang(c, s, coef.numerator)
        rc, rs = rc * cc - rs * ss, rs * cc + rc * ss
    # pi multiples: pc in quarter units
    q = pc * 2
    if q.denominator != 1: raise ValueError("pi coefficient not multiple of 1/2")
    q = int(q) % 4
    for _ in range(q):
        rc, rs = -rs, rc
    rc, rs = z3.simplify(rc), z3.simplify(rs)
    # link half atoms with whole atoms if both exist: done lazily in finalize
    CTX.cache[key] = (rc, rs)
    return rc, rs

def link_fractions():
    """if atom a has (c,s) at den=1 and den=d, link them"""
    by = {}
    for (aid, den), (term, c, s) in list(CTX.angles.items()):
        by.setdefault(aid, {})[den] = (c, s)
    for aid, d in by.items():
        dens = sorted(d)
        for d1, d2 in itertools.combinations(dens, 2):
            if d2 % d1 == 0:
                c2, s2 = d[d2]; c1, s1 = d[d1]
                cc, ss = mulang(c2, s2, d2 // d1)
                CTX.cons += [c1 == cc, s1 == ss]

class Lib:
    inf = float("inf"); nan = float("nan")
    @property
    def pi(self): return Sym(CTX.pi)
    def _memo(self, name, *ts):
        ns = [z3.simplify(t, som=True) for t in ts]
        CTX.keep = getattr(CTX, "keep", []); CTX.keep += ns
        key = (name,) + tuple(t.get_id() for t in ns)
        return key, CTX.cache.get(key)
    def div(self, a, b):
        a, b = lift(a), lift(b)
        if z3.is_rational_value(b) and _q(b) != 0:
            return Sym(a / b)
        key, r = self._memo("div", a, b)
        if r is None:
            r = CTX.fresh("q"); CTX.cache[key] = r
            CTX.cons.append(z3.Implies(b != 0, r * b == a))
            CTX.defd.append(b != 0)
        return Sym(r)
    def sqrt(self, a):
        a = lift(a); key, r = self._memo("sqrt", a)
        if r is None:
            r = CTX.fresh("r"); CTX.cache[key] = r
            CTX.sqrts = getattr(CTX, "sqrts", {}); CTX.sqrts[r.get_id()] = (r, a)
            CTX.cons.append(z3.Implies(a >= 0, z3.And(r >= 0, r * r == a)))
            CTX.defd.append(a >= 0)
        return Sym(r)
    def cos(self, a): return Sym(cossin(lift(a))[0])
    def sin(self, a): return Sym(cossin(lift(a))[1])
    def tan(self, a):
        c, s = cossin(lift(a)); return self.div(Sym(s), Sym(c))
    def angle_var(self, name, key, lo=None, hi=None):
        A = CTX.fresh(name); CTX.cache[key] = A
        c, s = cs_of_atom(A, 1)
        return A, c, s
    def arctan2(self, y, x):
        y, x = lift(y), lift(x); key, A = self._memo("arctan2", y, x)
        if A is None:
            A, c, s = self.angle_var("atan2", key)
            r = lift(self.sqrt(Sym(x * x + y * y)))
            CTX.cons += [A > -CTX.pi, A <= CTX.pi, r * c == x, r * s == y]
            CTX.defd.append(z3.Or(x != 0, y != 0))
        return Sym(A)
    def arctan(self, u):
        u = lift(u); key, A = self._memo("arctan", u)
        if A is None:
            A, c, s = self.angle_var("atan", key)
            CTX.cons += [A > -CTX.pi / 2, A < CTX.pi / 2, c > 0, s == u * c]
        return Sym(A)
    def arccos(self, u):
        u = lift(u); key, A = self._memo("arccos", u)
        if A is None:
            A, c, s = self.angle_var("acos", key)
            CTX.cons += [A >= 0, A <= CTX.pi, s >= 0, z3.Implies(z3.And(u >= -1, u <= 1), c == u)]
            CTX.defd.append(z3.And(u >= -1, u <= 1))
        return Sym(A)
    def exp(self, a):
        a = z3.simplify(lift(a)); key, E = self._memo("exp", a)
        if E is None:
            E = CTX.fresh("E"); CTX.cache[key] = E
            CTX.cons += [E > 0, (E > 1) == (a > 0), (E == 1) == (a == 0)]
            CTX.exps[a.get_id()] = (a, E)
            na = z3.simplify(-a)
            if na.get_id() in CTX.exps:
                CTX.cons.append(E * CTX.exps[na.get_id()][1] == 1)
        return Sym(E)
    def log(self, u):
        u = lift(u); key, L = self._memo("log", u)
        if L is None:
            L = CTX.fresh("L"); CTX.cache[key] = L
            CTX.defd.append(u > 0)
            E = lift(self.exp(Sym(L)))
            CTX.cons.append(z3.Implies(u > 0, E == u))
        return Sym(L)
    def sinh(self, a):
        E = self.exp(a); Em = self.exp(-a if isinstance(a, Sym) else Sym(-lift(a)))
        return (E - Em) / 2
    def arcsinh(self, w):
        w = lift(w); key, A = self._memo("arcsinh", w)
        if A is None:
            A = CTX.fresh("asinh"); CTX.cache[key] = A
            sh = lift(self.sinh(Sym(A)))
            CTX.cons.append(sh == w)
        return Sym(A)
    def mod(self, a, m):
        a, m = lift(a), lift(m); key, r = self._memo("mod", a, m)
        if r is None:
            r = CTX.fresh("mod"); CTX.cache[key] = r
            CTX.cons += [z3.Implies(m > 0, z3.And(r >= 0, r < m)),
                         z3.Implies(z3.And(m > 0, a >= 0, a < m), r == a),
                         z3.Implies(z3.And(m > 0, a >= m, a < 2 * m), r == a - m),
                         z3.Implies(z3.And(m > 0, a >= -m, a < 0), r == a + m)]
            if z3.eq(z3.simplify(m), z3.simplify(2 * CTX.pi)):
                ca, sa = cossin(a)
                CTX.angles[(r.get_id(), 1)] = (r, ca, sa)
                quadrant(r, ca, sa)
        return Sym(r)
    def absolute(self, a): a = lift(a); return Sym(z3.If(a >= 0, a, -a))
    def sign(self, a): a = lift(a); return Sym(z3.If(a > 0, z3.RealVal(1), z3.If(a < 0, z3.RealVal(-1), z3.RealVal(0))))
    def copysign(self, a, b):
        aa = lift(self.absolute(a)); return Sym(z3.If(lift(b) >= 0, aa, -aa))
    def maximum(self, a, b): a, b = lift(a), lift(b); return Sym(z3.If(a >= b, a, b))
    def minimum(self, a, b): a, b = lift(a), lift(b); return Sym(z3.If(a <= b, a, b))
    def nan_to_num(self, a, nan=0.0, posinf=None, neginf=None): return a if isinstance(a, Sym) else Sym(lift(a))
    def isclose(self, a, b, rtol=1e-5, atol=1e-8, equal_nan=False):
        return self.absolute(Sym(lift(a)) - b) <= atol + rtol * self.absolute(b)

LIB = Lib()

def exp_injectivity():
    es = list(CTX.exps.values())
    for (a, Ea), (b, Eb) in itertools.combinations(es, 2):
        CTX.cons.append((Ea == Eb) == (a == b))
        CTX.cons.append((Ea < Eb) == (a < b))

def angle_injectivity(a, b):
    """assert sound fact: a,b in common window (lo,hi] of width 2pi and same cos,sin -> equal"""
    ca, sa = cossin(a); cb, sb = cossin(b)
    pi = CTX.pi
    CTX.cons.append(z3.Implies(z3.And(a > -pi, a <= pi, b > -pi, b <= pi, ca == cb, sa == sb), a == b))
    CTX.cons.append(z3.Implies(z3.And(a >= 0, a <= pi, b >= 0, b <= pi, ca == cb), a == b))

def new():
    global CTX
    CTX = Ctx()
    return CTX

def prove(assumptions, goal, timeout=60000, use_defd=True, tactic=None):
    link_fractions(); exp_injectivity()
    s = z3.Solver() if tactic is None else z3.Tactic(tactic).solver()
    s.set("timeout", timeout)
    for c in CTX.cons: s.add(c)
    for a in assumptions: s.add(a)
    if use_defd:
        for d in CTX.defd: s.add(d)
    s.add(z3.Not(goal))
    t0 = time.time(); r = s.check(); dt = time.time() - t0
    return str(r), dt, (s.model() if str(r) == "sat" else None)

def prove_eqs(assumptions, pairs, timeout=30000):
    """prove each got==exp separately, with sqrt elimination"""
    out=[]
    sq = getattr(CTX, "sqrts", {})
    for a, e in pairs:
        if a.get_id() in sq:
            r, U = sq[a.get_id()]
            goals=[e >= 0, e*e == U]
        elif e.get_id() in sq:
            r, U = sq[e.get_id()]
            goals=[a >= 0, a*a == U]
        else: goals=[a == e]
        for g in goals:
            out.append(prove(assumptions, g, timeout=timeout)[:2])
    return out
