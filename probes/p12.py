import z3, time, sys
import eng2 as eng, symobj2
from symobj2 import *
which = sys.argv[1]
t00=time.time()
def fmt(rs): return [(a, round(b,2), c) for r in rs for (a,b,c) in r]
if which == "boostZ":
    for s in SYS4:
        t0=time.time(); C=eng.new()
        b = R("beta"); C.dom += [b.n > -1, b.n < 1]
        v = make(s, "1")
        w = v.boostZ(beta=b)
        x, y, z, t = ref_cart(v)
        g = 1 / LIB.sqrt(1 - b * b)
        exp = [x, y, g * (z + b * t), g * (t + b * z)]
        got = ref_cart(w)
        rs = [eng.prove_eq(a, e) for a, e in zip(got, exp)]
        print("boostZ", s, fmt(rs), "exec+solve", round(time.time()-t0,2), C.stats, flush=True)
if which == "boostp4":
    for s in SYS4:
      for s2 in [("xy","z","t"),("rhophi","eta","tau"),("xy","theta","t")]:
        t0=time.time(); C=eng.new()
        v = make(s, "1"); p = make(s2, "2")
        px, py, pz, pt = ref_cart(p)
        m2 = pt*pt - px*px - py*py - pz*pz
        C.dom += [(pt > 0).t, (m2 > 0).t]
        w = v.boost_p4(p)
        x, y, z, t = ref_cart(v)
        m = LIB.sqrt(m2)
        bp = (px*x + py*y + pz*z)
        k = (bp / (m * (pt + m)) + t / m)
        exp = [x + px * k, y + py * k, z + pz * k, (pt * t + bp) / m]
        got = ref_cart(w)
        rs = [eng.prove_eq(a, e) for a, e in zip(got, exp)]
        print("boost_p4", s, s2, fmt(rs), "exec+solve", round(time.time()-t0,2), C.stats, flush=True)
print("total", round(time.time()-t00,1))
