import importlib, pkgutil, collections
import vector._compute.planar, vector._compute.spatial, vector._compute.lorentz
tot=collections.Counter(); gen=collections.Counter(); mods=0
for pkg in (vector._compute.planar, vector._compute.spatial, vector._compute.lorentz):
    for mi in pkgutil.iter_modules(pkg.__path__):
        m = importlib.import_module(pkg.__name__+"."+mi.name)
        if not hasattr(m,"dispatch_map"): continue
        mods+=1
        for sig,(fn,*ret) in m.dispatch_map.items():
            tot[pkg.__name__.split(".")[-1]]+=1
            if fn.__name__ in ("f",) or "<locals>" in fn.__qualname__: gen[pkg.__name__.split(".")[-1]]+=1
print(mods, dict(tot), sum(tot.values()), "generated closures:", dict(gen), sum(gen.values()))
