import z3, time, sys
import eng2 as eng, symobj2
from symobj2 import *
def show(name, r): print(f"{name:45s}", [(a, round(b,2), c) for rr in r for a,b,c in rr], flush=True)
for s in (("rhophi",), ("rhophi","theta"), ("rhophi","eta","tau")):
    t0=time.time(); C=eng.new()
    a=make(s,"1"); b=make(s,"2"); c=make(s,"3")
    ca,cb,cc=ref_cart(a),ref_cart(b),ref_cart(c)
    ab=a+b
    # representability of intermediate: nonzero transverse part
    C.dom.append(z3.Or((ca[0]+cb[0]!=0).t,(ca[1]+cb[1]!=0).t))
    r=(a+b)+c
    got=ref_cart(r)
    exp=[x+y+z for x,y,z in zip(ca,cb,cc)]
    res=[eng.prove_eq(g,e) for g,e in zip(got,exp)]
    show(f"(a+b)+c decode {s} [{type(r.azimuthal).__name__}]", res); print("   wall",round(time.time()-t0,1), C.stats)
