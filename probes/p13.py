import z3, time, sys
import eng2 as eng, symobj2
from symobj2 import *
C=eng.new()
v = make(("xy","z","tau"), "1"); p = make(("xy","z","t"), "2")
px, py, pz, pt = ref_cart(p)
m2 = pt*pt - px*px - py*py - pz*pz
C.dom += [(pt > 0).t, (m2 > 0).t]
w = v.boost_p4(p)
for (r,N,D) in C.sqrts: print(r, "N=",N, " D=",D)
x, y, z, t = ref_cart(v)
print("ref t:", t)
for (r,N,D) in C.sqrts: print(r, "N=",N, " D=",D)
print("w.x =", w.azimuthal.x)
