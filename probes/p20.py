import z3, time, sys, importlib, pkgutil, inspect, traceback, collections
import eng2 as eng, symobj2
from symobj2 import *
import vector._compute.planar, vector._compute.spatial, vector._compute.lorentz
from vector._methods import AzimuthalXY, AzimuthalRhoPhi, LongitudinalZ, LongitudinalTheta, LongitudinalEta, TemporalT, TemporalTau
names = {AzimuthalXY:("x","y"), AzimuthalRhoPhi:("rho","phi"), LongitudinalZ:("z",), LongitudinalTheta:("theta",), LongitudinalEta:("eta",), TemporalT:("t",), TemporalTau:("tau",)}
tot=0; fails=collections.Counter(); errs={}
t0=time.time()
for pkg in (vector._compute.planar, vector._compute.spatial, vector._compute.lorentz):
    for mi in pkgutil.iter_modules(pkg.__path__):
        m = importlib.import_module(pkg.__name__+"."+mi.name)
        if not hasattr(m,"dispatch_map"): continue
        for sig,(fn,*ret) in m.dispatch_map.items():
            tot+=1
            C=eng.new()
            nparams=len(inspect.signature(fn).parameters)-1
            coords=[]
            k=0
            for part in sig:
                if isinstance(part,str): continue
                for nm in names[part]:
                    k+=1; v=R(f"{nm}{k}"); coords.append(v)
                    if nm=="rho": C.dom.append(v.n>0)
                    if nm=="theta": C.dom += [v.n>0, v.n<C.pi]
                    if nm=="tau": C.dom.append(v.n>=0)
            nsc=nparams-len(coords)
            scal=[R(f"s{i}") for i in range(nsc)]
            try:
                # scalars come first except for boost-like? try scalars first
                out=fn(LIB,*scal,*coords)
            except Exception as e:
                fails[mi.name]+=1
                errs.setdefault(f"{type(e).__name__}: {str(e)[:80]}", []).append(f"{pkg.__name__.split('.')[-1]}.{mi.name}{[p.__name__ if not isinstance(p,str) else p for p in sig]}")
print("variants",tot,"failed",sum(fails.values()),"time",round(time.time()-t0,1))
for e,l in errs.items(): print(e, len(l), l[:3])
