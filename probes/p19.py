import z3, sympy, time
import eng2 as eng, symobj2
from symobj2 import *
import vector
C=eng.new()
x,y,z,t = sympy.symbols("x y z t", real=True)
rho,phi,eta,tau = sympy.symbols("rho phi eta tau", real=True)
vs = vector.VectorSympy4D(rho=rho, phi=phi, eta=eta, tau=tau)
exprs = {"t": vs.t, "z": vs.z, "theta": vs.theta, "rapidity": vs.rapidity, "beta": vs.beta, "x_boostZ": vs.boostZ(beta=sympy.Symbol("b", real=True)).z}
for k,e in exprs.items(): print(k, "=", e)
ns = {"sin": LIB.sin, "cos": LIB.cos, "tan": LIB.tan, "sqrt": LIB.sqrt, "exp": LIB.exp, "log": LIB.log, "atan2": LIB.arctan2, "atan": LIB.arctan, "acos": LIB.arccos,
      "asinh": LIB.arcsinh, "sinh": LIB.sinh, "cosh": LIB.cosh, "Abs": LIB.absolute, "pi": LIB.pi}
sv = make(("rhophi","eta","tau"), "")
import sympy
syms = [rho,phi,eta,tau, sympy.Symbol("b", real=True)]
b = R("b"); C.dom += [b.n > -1, b.n < 1]
vals = [sv.azimuthal.rho, sv.azimuthal.phi, sv.longitudinal.eta, sv.temporal.tau, b]
objres = {"t": sv.t, "z": sv.z, "theta": sv.theta, "rapidity": sv.rapidity, "beta": sv.beta, "x_boostZ": sv.boostZ(beta=b).z}
for k,e in exprs.items():
    f = sympy.lambdify(syms, e, modules=[ns])
    got = f(*vals)
    t0=time.time()
    if k=="theta": eng.angle_injectivity(got, objres[k])
    r = eng.prove_eq(got, objres[k])
    print(k, [(a,round(b_,2),c) for a,b_,c in r], flush=True)
