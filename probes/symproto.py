"""Probe: run vector's real object backend on z3-term scalars."""
import z3, numbers, fractions
import vector
from vector.backends import object as vo


def lift(v):
    if isinstance(v, Sym):
        return v.t
    if isinstance(v, SymBool):
        return z3.If(v.t, z3.RealVal(1), z3.RealVal(0))
    if isinstance(v, bool):
        return z3.RealVal(1 if v else 0)
    if isinstance(v, int):
        return z3.RealVal(v)
    if isinstance(v, float) and (v!=v or v in (float("inf"), float("-inf"))):
        return z3.Real("SING")
    if isinstance(v, float):
        return z3.RealVal(str(fractions.Fraction(v)))
    raise TypeError(type(v))


class SymBool:
    def __init__(self, t):
        self.t = t
    def __and__(self, o): return SymBool(z3.And(self.t, lb(o)))
    __rand__ = __and__
    def __or__(self, o): return SymBool(z3.Or(self.t, lb(o)))
    __ror__ = __or__
    def __invert__(self): return SymBool(z3.Not(self.t))
    def __bool__(self): raise RuntimeError("branch on symbolic bool")
    def __mul__(self, o): return Sym(lift(self)) * o
    __rmul__ = __mul__
    def __repr__(self): return f"SymBool({self.t})"

def lb(o):
    if isinstance(o, SymBool): return o.t
    if isinstance(o, bool): return z3.BoolVal(o)
    raise TypeError(type(o))


class Sym:
    def __init__(self, t): self.t = t
    def __add__(self, o): return Sym(self.t + lift(o))
    def __radd__(self, o): return Sym(lift(o) + self.t)
    def __sub__(self, o): return Sym(self.t - lift(o))
    def __rsub__(self, o): return Sym(lift(o) - self.t)
    def __mul__(self, o): return Sym(self.t * lift(o))
    def __rmul__(self, o): return Sym(lift(o) * self.t)
    def __truediv__(self, o): return Sym(self.t / lift(o))
    def __rtruediv__(self, o): return Sym(lift(o) / self.t)
    def __neg__(self): return Sym(-self.t)
    def __pos__(self): return self
    def __pow__(self, o):
        if isinstance(o, int) and o >= 0:
            r = z3.RealVal(1)
            for _ in range(o): r = r * self.t
            return Sym(r)
        return LIB.power(self, o)
    def __mod__(self, o):
        return LIB.mod(self, o)
    def __eq__(self, o): return SymBool(self.t == lift(o))
    def __ne__(self, o): return SymBool(self.t != lift(o))
    def __lt__(self, o): return SymBool(self.t < lift(o))
    def __le__(self, o): return SymBool(self.t <= lift(o))
    def __gt__(self, o): return SymBool(self.t > lift(o))
    def __ge__(self, o): return SymBool(self.t >= lift(o))
    def __hash__(self): return id(self)
    def __bool__(self): raise RuntimeError("branch on symbolic value")
    def __repr__(self): return f"Sym({self.t})"

numbers.Real.register(Sym)


class SymLib:
    def __init__(self):
        self.apps = []   # (fname, args, result)
        self.n = 0
        self.pi = Sym(z3.Real("pi"))
        self.inf = float("inf")
        self.nan = float("nan")
    def _uf(self, name, *args):
        f = z3.Function(name, *([z3.RealSort()] * (len(args) + 1)))
        r = f(*[lift(a) for a in args])
        self.apps.append((name, args, r))
        return Sym(r)
    def sqrt(self, a): return self._uf("sqrt", a)
    def sin(self, a): return self._uf("sin", a)
    def cos(self, a): return self._uf("cos", a)
    def tan(self, a): return self._uf("tan", a)
    def arctan2(self, a, b): return self._uf("arctan2", a, b)
    def arctan(self, a): return self._uf("arctan", a)
    def arccos(self, a): return self._uf("arccos", a)
    def arcsinh(self, a): return self._uf("arcsinh", a)
    def sinh(self, a): return self._uf("sinh", a)
    def exp(self, a): return self._uf("exp", a)
    def log(self, a): return self._uf("log", a)
    def power(self, a, b): return self._uf("pow", a, b)
    def mod(self, a, b): return self._uf("mod", a, b)
    def absolute(self, a): return Sym(z3.If(lift(a) >= 0, lift(a), -lift(a)))
    def sign(self, a): return Sym(z3.If(lift(a) > 0, z3.RealVal(1), z3.If(lift(a) < 0, z3.RealVal(-1), z3.RealVal(0))))
    def copysign(self, a, b):
        aa = lift(self.absolute(a)); return Sym(z3.If(lift(b) >= 0, aa, -aa))
    def maximum(self, a, b): return Sym(z3.If(lift(a) >= lift(b), lift(a), lift(b)))
    def minimum(self, a, b): return Sym(z3.If(lift(a) <= lift(b), lift(a), lift(b)))
    def nan_to_num(self, a, nan=0.0, posinf=None, neginf=None): return a if isinstance(a, Sym) else Sym(lift(a))
    def isclose(self, a, b, rtol=1e-5, atol=1e-8, equal_nan=False):
        return lift_abs(a - b) <= atol + rtol * LIB.absolute(b)

def lift_abs(a): return LIB.absolute(a)

LIB = SymLib()


def mk(base, name):
    return type(name, (base,), {"lib": LIB, "__slots__": ()})

SV2 = mk(vo.VectorObject2D, "SV2"); SM2 = mk(vo.MomentumObject2D, "SM2")
SV3 = mk(vo.VectorObject3D, "SV3"); SM3 = mk(vo.MomentumObject3D, "SM3")
SV4 = mk(vo.VectorObject4D, "SV4"); SM4 = mk(vo.MomentumObject4D, "SM4")
for g, m in ((SV2, SM2), (SV3, SM3), (SV4, SM4)):
    for c, (p2, p3, p4) in ((g, (SV2, SV3, SV4)), (m, (SM2, SM3, SM4))):
        c.ProjectionClass2D, c.ProjectionClass3D, c.ProjectionClass4D = p2, p3, p4
        c.GenericClass, c.MomentumClass = g, m

def R(n): return Sym(z3.Real(n))

if __name__ == "__main__":
    a = SV2(azimuthal=vo.AzimuthalObjectRhoPhi(R("rho1"), R("phi1")))
    b = SV2(azimuthal=vo.AzimuthalObjectRhoPhi(R("rho2"), R("phi2")))
    c = a + b
    print(type(c).__name__, c.azimuthal)
    print(a.dot(b))
    print(a == b, a != b)
    print(abs(a), a * R("k"))
    v = SM4(azimuthal=vo.AzimuthalObjectRhoPhi(R("pt"), R("phi")), longitudinal=vo.LongitudinalObjectEta(R("eta")), temporal=vo.TemporalObjectTau(R("m")))
    print(type(v.to_xyzt()).__name__)
    print(v.E)
    w = v.boostZ(beta=R("b"))
    print(type(w).__name__, type(w.azimuthal).__name__, type(w.longitudinal).__name__, type(w.temporal).__name__)
    print(len(str(w.temporal)))
    p = SV4(azimuthal=vo.AzimuthalObjectXY(R("px"), R("py")), longitudinal=vo.LongitudinalObjectZ(R("pz")), temporal=vo.TemporalObjectT(R("E")))
    w = v.boost_p4(p)
    print(type(w).__name__, len(str(w.azimuthal)))
    print(v.rotate_euler(R("a"), R("b"), R("c"), "ZXZ").azimuthal.x.t.sexpr()[:300])
    print(v.is_timelike(), v.deltaR(p))
    v.pt = R("newpt"); print(v.azimuthal)
    v *= R("k"); print(type(v).__name__, type(v.azimuthal).__name__)
