#!/bin/sh
# Build the overlay venv the checks run in: /venv (the repository's own environment, untouched)
# plus z3-solver from the offline wheelhouse.  Idempotent; no network.
set -e
cd "$(dirname "$0")"
V=.venv
if [ ! -x "$V/bin/python" ] || ! "$V/bin/python" -c "import z3, numpy, mpmath, sympy" 2>/dev/null; then
  rm -rf "$V"
  /venv/bin/python -m venv "$V"
  SP=$("$V/bin/python" -c "import sysconfig; print(sysconfig.get_paths()['purelib'])")
  echo "import site; site.addsitedir('/venv/lib/python3.12/site-packages')" > "$SP/overlay.pth"
  PIP_NO_INDEX=1 "$V/bin/python" -m pip install --quiet --no-index --find-links /opt/veriftools/wheels z3-solver jsonschema >/dev/null
fi
"$V/bin/python" -c "import z3, numpy, mpmath, sympy, vector; print('verif venv ok: z3', z3.get_version_string(), 'vector from', vector.__file__)"
